package main

import (
	"fmt"
	"net"
	"time"

	"github.com/nats-io/nats-server/v2/server"
)

// newServer: a real embedded nats-server on a random loopback port.
func newServer(token string) (string, func()) {
	s, err := server.NewServer(&server.Options{Host: "127.0.0.1", Port: -1, Authorization: token, NoSigs: true, NoLog: true})
	if err != nil {
		panic(err)
	}
	go s.Start()
	if !s.ReadyForConnections(10 * time.Second) {
		panic("nats-server not ready")
	}
	return fmt.Sprintf("nats://127.0.0.1:%d", s.Addr().(*net.TCPAddr).Port), s.Shutdown
}
