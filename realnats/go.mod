module verif/realnats

go 1.23

require github.com/simpleiot/simpleiot v0.0.0

replace github.com/simpleiot/simpleiot => /repo
