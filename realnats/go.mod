module verif/realnats

go 1.23

require (
	github.com/nats-io/nats-server/v2 v2.10.4
	github.com/nats-io/nats.go v1.31.0
	github.com/simpleiot/simpleiot v0.0.0
)

require (
	github.com/klauspost/compress v1.17.2 // indirect
	github.com/minio/highwayhash v1.0.2 // indirect
	github.com/nats-io/jwt/v2 v2.5.2 // indirect
	github.com/nats-io/nkeys v0.4.6 // indirect
	github.com/nats-io/nuid v1.0.1 // indirect
	golang.org/x/crypto v0.14.0 // indirect
	golang.org/x/sys v0.13.0 // indirect
	golang.org/x/time v0.3.0 // indirect
)

replace github.com/simpleiot/simpleiot => /repo
