#!/bin/bash
# run.sh <Cxx> quick|thorough      run one check against /repo's current working tree
# run.sh replay <file>             re-execute one recorded violation without the explorer
# run.sh setup                     warm build caches
set -u
cd "$(dirname "$0")"
export VERIF_ROOT="$PWD"
export GOFLAGS=-mod=mod GOPROXY=off GOSUMDB=off GOTOOLCHAIN=local GONOSUMDB='*' GONOSUMCHECK=1 GOFLAGS=-mod=mod
mkdir -p bin evidence replays

build_s() {
  cp /repo/go.sum h/go.sum 2>/dev/null
  (cd h && go build -o ../bin/verifs ./cmd/verifs) || { echo "HARNESS-ERROR: tier-S build failed (does /repo still compile?)"; exit 3; }
}

case "${1:-}" in
  setup)
    build_s
    exit 0;;
  replay)
    build_s
    exec bin/verifs replay "$2";;
esac

id="$1"; tier="${2:-quick}"
case "$id" in
  C10|C11|C12|C14|C16|C17|C18|C19)
    build_s
    exec bin/verifs "$id" "$tier";;
  *) echo "HARNESS-ERROR: unknown property $id"; exit 3;;
esac
