#!/bin/bash
# run.sh <Cxx> quick|thorough      run one check against /repo's current working tree
# run.sh replay <file>             re-execute one recorded violation without the explorer
# run.sh setup                     warm build caches
set -u
cd "$(dirname "$0")"
export VERIF_ROOT="$PWD"
export GOFLAGS=-mod=mod GOPROXY=off GOSUMDB=off GOTOOLCHAIN=local GONOSUMDB='*' GONOSUMCHECK=1 GOFLAGS=-mod=mod
mkdir -p bin evidence replays
# scratch hygiene: remove database directories left in /dev/shm by processes that no longer exist
for d in /dev/shm/verif-[0-9]*-[0-9]* /dev/shm/verif-shards-* /dev/shm/verif-c04-* /dev/shm/verif-replay-*; do
  [ -e "$d" ] || continue
  pid=$(echo "$d" | sed -n 's|/dev/shm/verif-\([0-9]*\)-[0-9]*$|\1|p')
  if [ -n "$pid" ]; then [ -d "/proc/$pid" ] || rm -rf "$d"; else find "$d" -maxdepth 0 -mmin +1500 -exec rm -rf {} + 2>/dev/null; fi
done

build_s() {
  cp /repo/go.sum h/go.sum 2>/dev/null
  (cd h && go build -o ../bin/verifs ./cmd/verifs) || { echo "HARNESS-ERROR: tier-S build failed (does /repo still compile?)"; exit 3; }
}

# overlay_test <name> <repo pkg dir> <TestFunc>: compile an in-package test whose
# source lives in overlay/<name>_test.go.txt into bin/<name>.test and run it
overlay_test() {
  local name="$1" pkg="$2" fn="$3"
  cp /repo/go.sum h/go.sum 2>/dev/null
  printf '{"Replace":{"/repo/%s/zz_verif_%s_test.go":"%s/overlay/%s_test.go.txt"}}' "$pkg" "$name" "$VERIF_ROOT" "$name" > "bin/ov_$name.json"
  (cd h && go test -c -overlay "../bin/ov_$name.json" -vet=off -o "../bin/$name.test" "github.com/simpleiot/simpleiot/$pkg") || { echo "HARNESS-ERROR: overlay test build failed for $name"; exit 3; }
  VERIF_TIER="$tier" exec "bin/$name.test" -test.run "^${fn}\$" -test.timeout 0
}

# bus-token sub-check of C09: real nats-server built by server.newNatsServer, real nats.go clients
bustoken() {
  cp /repo/go.sum realnats/go.sum 2>/dev/null
  printf '{"Replace":{"/repo/server/zz_verif_bustoken_test.go":"%s/overlay/bustoken_test.go.txt"}}' "$VERIF_ROOT" > bin/ov_bustoken.json
  (cd realnats && go test -c -overlay ../bin/ov_bustoken.json -vet=off -o ../bin/bustoken.test github.com/simpleiot/simpleiot/server) || { echo "HARNESS-ERROR: bus-token test build failed"; exit 3; }
  rm -f bin/c09_bustoken.json
  VERIF_BUSTOKEN_OUT="$VERIF_ROOT/bin/c09_bustoken.json" bin/bustoken.test -test.run '^TestVerifBusToken$' -test.timeout 300s > bin/bustoken.log 2>&1
  [ -s bin/c09_bustoken.json ] || { echo "HARNESS-ERROR: bus-token test produced no result"; tail -5 bin/bustoken.log; exit 3; }
}

# server-shutdown part of C20: the whole instance (server.Server) on real nats.go + embedded nats-server
srvstop() {
  cp /repo/go.sum realnats/go.sum 2>/dev/null
  printf '{"Replace":{"/repo/server/zz_verif_srvstop_test.go":"%s/overlay/srvstop_test.go.txt"}}' "$VERIF_ROOT" > bin/ov_srvstop.json
  (cd realnats && go test -c -overlay ../bin/ov_srvstop.json -vet=off -o ../bin/srvstop.test github.com/simpleiot/simpleiot/server) || { echo "HARNESS-ERROR: server-stop test build failed"; exit 3; }
  rm -f bin/c20_srvstop.json
  VERIF_TIER="$tier" VERIF_SRVSTOP_OUT="$VERIF_ROOT/bin/c20_srvstop.json" bin/srvstop.test -test.run '^TestVerifServerStop$' -test.timeout 1800s > bin/srvstop.log 2>&1
  [ -s bin/c20_srvstop.json ] || { echo "HARNESS-ERROR: server-stop test produced no result"; tail -5 bin/srvstop.log; exit 3; }
}

# tier B: test binary compiled with go1.26.8 (testing/synctest bubbles)
build_b() {
  cp /repo/go.sum h/go.sum 2>/dev/null
  # client/manager.go, sync.go, rule.go with their select statements put under explorer control (virtual files, /repo untouched)
  mkdir -p bin/vsel
  (cd h && go build -o ../bin/vselgen ./cmd/vselgen) || { echo "HARNESS-ERROR: vselgen build failed"; exit 3; }
  : > bin/vsel/gen.log
  for f in manager sync rule; do
    bin/vselgen /repo/client/$f.go bin/vsel/$f.go.txt >> bin/vsel/gen.log 2>&1 || { cat bin/vsel/gen.log; echo "HARNESS-ERROR: vselgen failed (does /repo still compile?)"; exit 3; }
  done
  printf '{"Replace":{"/repo/client/manager.go":"%s/bin/vsel/manager.go.txt","/repo/client/sync.go":"%s/bin/vsel/sync.go.txt","/repo/client/rule.go":"%s/bin/vsel/rule.go.txt"}}' "$VERIF_ROOT" "$VERIF_ROOT" "$VERIF_ROOT" > bin/ov_b.json
  (cd h && go1.26.8 test -c -vet=off -overlay ../bin/ov_b.json -o ../bin/verifb.test ./tb) || { echo "HARNESS-ERROR: tier-B build failed (does /repo still compile?)"; exit 3; }
}
run_b() { VERIF_TIER="$tier" exec bin/verifb.test -test.run "^Test$1\$" -test.timeout 0; }

case "${1:-}" in
  setup)
    # warm the build caches of both toolchains and compile every harness binary once
    build_s
    (cd h && go build -o ../bin/c04writer ./cmd/c04writer) || exit 3
    build_b
    python3 gen_gated.py || exit 3
    (cd h && go1.26.8 test -c -vet=off -overlay ../bin/ov_gate.json -o ../bin/verifb_gated.test ./tb) || exit 3
    (cd h && go1.26.8 test -race -c -vet=off -o ../bin/verifb_race.test ./tb) || exit 3
    tier=quick
    printf '{"Replace":{"/repo/client/zz_verif_c14_test.go":"%s/overlay/c14_test.go.txt"}}' "$VERIF_ROOT" > bin/ov_c14.json
    (cd h && go test -c -overlay ../bin/ov_c14.json -vet=off -o ../bin/c14.test github.com/simpleiot/simpleiot/client) || exit 3
    cp /repo/go.sum realnats/go.sum 2>/dev/null
    printf '{"Replace":{"/repo/server/zz_verif_bustoken_test.go":"%s/overlay/bustoken_test.go.txt"}}' "$VERIF_ROOT" > bin/ov_bustoken.json
    (cd realnats && go test -c -overlay ../bin/ov_bustoken.json -vet=off -o ../bin/bustoken.test github.com/simpleiot/simpleiot/server) || exit 3
    printf '{"Replace":{"/repo/server/zz_verif_srvstop_test.go":"%s/overlay/srvstop_test.go.txt"}}' "$VERIF_ROOT" > bin/ov_srvstop.json
    (cd realnats && go test -c -overlay ../bin/ov_srvstop.json -vet=off -o ../bin/srvstop.test github.com/simpleiot/simpleiot/server) || exit 3
    echo "setup ok"
    exit 0;;
  replay)
    prop=$(jq -r .property "$2")
    tier=quick
    case "$prop" in
      C14) VERIF_REPLAY="$(realpath "$2")" overlay_test c14 client TestVerifC14;;
      C02|C07|C08|C13) build_b
         GOMAXPROCS=1 GODEBUG=asyncpreemptoff=1 VERIF_EXEC_ONE="$(jq -r .violation.part "$2")|$(jq -c .violation.choices "$2")" exec bin/verifb.test -test.run "^Test$prop\$" -test.timeout 0;;
      C20) if [ "$(jq -r .violation.part "$2")" = server-shutdown ]; then
           # one scenario of the server-shutdown part, in a process of its own; exit 1 if it violates again
           cp /repo/go.sum realnats/go.sum 2>/dev/null
           printf '{"Replace":{"/repo/server/zz_verif_srvstop_test.go":"%s/overlay/srvstop_test.go.txt"}}' "$VERIF_ROOT" > bin/ov_srvstop.json
           (cd realnats && go test -c -overlay ../bin/ov_srvstop.json -vet=off -o ../bin/srvstop.test github.com/simpleiot/simpleiot/server) || exit 3
           out=$(VERIF_SRVSTOP_SCENARIO="$(jq -c .violation.input "$2")" bin/srvstop.test -test.run '^TestVerifServerStopOne$' -test.timeout 400s 2>&1 | grep '^SRVSTOP-RESULT')
           echo "$out"
           [ -z "$out" ] && { echo "violation: the instance process ended without finishing the scenario"; exit 1; }
           echo "$out" | grep -q '"violation"' && exit 1
           exit 0
         fi
         python3 gen_gated.py || exit 3
         (cd h && go1.26.8 test -c -vet=off -overlay ../bin/ov_gate.json -o ../bin/verifb_gated.test ./tb) || exit 3
         GOMAXPROCS=1 GODEBUG=asyncpreemptoff=1 VERIF_EXEC_ONE="$(jq -r .violation.part "$2")|$(jq -c ".violation.choices // []" "$2")" exec bin/verifb_gated.test -test.run '^TestC20$' -test.timeout 0;;
      C04) build_s; (cd h && go build -o ../bin/c04writer ./cmd/c04writer) || exit 3; exec bin/verifs replay "$2";;
      *) build_s; exec bin/verifs replay "$2";;
    esac;;
esac

id="$1"; tier="${2:-quick}"
case "$id" in
  C14)
    overlay_test c14 client TestVerifC14;;
  C02|C07|C08|C13)
    build_b
    run_b "$id";;
  C20)
    # store/sqlite.go with its database/sql and sync imports rewritten to gated wrappers (virtual file, /repo untouched)
    python3 gen_gated.py || exit 3
    cp /repo/go.sum h/go.sum 2>/dev/null
    (cd h && go1.26.8 test -c -vet=off -overlay ../bin/ov_gate.json -o ../bin/verifb_gated.test ./tb) || { echo "HARNESS-ERROR: gated tier-B build failed"; exit 3; }
    # free-running -race pass of the same thread bodies (no gates): the "no data race" clause
    (cd h && go1.26.8 test -race -c -vet=off -o ../bin/verifb_race.test ./tb) || { echo "HARNESS-ERROR: -race build failed"; exit 3; }
    rm -rf bin/race && mkdir -p bin/race
    GORACE="halt_on_error=0 exitcode=0 log_path=$VERIF_ROOT/bin/race/race_report" VERIF_RACE_OUT="$VERIF_ROOT/bin/race/race_out.json" VERIF_TIER="$tier" \
      bin/verifb_race.test -test.run '^TestC20Race$' -test.timeout 30m > bin/race/log.txt 2>&1
    [ -s bin/race/race_out.json ] || { echo "HARNESS-ERROR: race pass did not finish"; tail -5 bin/race/log.txt; exit 3; }
    srvstop
    VERIF_C20_SRVSTOP="$VERIF_ROOT/bin/c20_srvstop.json" VERIF_RACE_DIR="$VERIF_ROOT/bin/race" VERIF_TIER="$tier" exec bin/verifb_gated.test -test.run '^TestC20$' -test.timeout 0;;
  C04)
    build_s
    (cd h && go build -o ../bin/c04writer ./cmd/c04writer) || { echo "HARNESS-ERROR: c04writer build failed"; exit 3; }
    exec bin/verifs "$id" "$tier";;
  C09)
    build_s
    bustoken
    VERIF_C09_BUSTOKEN="$VERIF_ROOT/bin/c09_bustoken.json" exec bin/verifs "$id" "$tier";;
  C01|C03|C05|C06|C15|C10|C11|C12|C16|C17|C18|C19)
    build_s
    exec bin/verifs "$id" "$tier";;
  *) echo "HARNESS-ERROR: unknown property $id"; exit 3;;
esac
