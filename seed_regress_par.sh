#!/bin/bash
# seed_regress_par.sh [jobs] — every kept seed against its property's quick check, several at a time
# (mut.sh works on private copies, so the runs do not disturb each other or /repo)
cd /verif
J=${1:-5}
ls seeded | xargs -P "$J" -I{} sh -c './seed_regress.sh {} 2>&1 | grep -v "not reported"' > /tmp/seed_regress_par.log 2>&1
sort /tmp/seed_regress_par.log | awk '{ if ($3 != "rc=1" || $4 == "violations=0") print "NOT REPORTED: " $0 }'
echo "seeds run: $(wc -l < /tmp/seed_regress_par.log)"
