module github.com/nats-io/nats.go

go 1.20
