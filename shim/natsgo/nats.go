// Package nats is a deterministic in-process stand-in for the part of
// github.com/nats-io/nats.go that simpleiot uses. It is substituted with a
// `replace` directive in the verification harness module only; /repo is built
// unmodified against it. Semantics implemented (and compared with the real
// client + server by /verif/realnats): subject matching with * and >,
// per-subscription FIFO, sequential callbacks per subscription, fan-out in
// subscription order at one linearisation point, NoEcho, request/reply through
// a private inbox, "no responders", Unsubscribe/Drain/IsValid/Pending, token
// check on Connect, connection handlers, methods on a nil *Conn.
package nats

import (
	"errors"
	"fmt"
	"runtime"
	"strconv"
	"strings"
	"sync"
	"sync/atomic"
	"time"
)

// Errors (same identities/names as nats.go)
var (
	ErrConnectionClosed  = errors.New("nats: connection closed")
	ErrInvalidConnection = errors.New("nats: invalid connection")
	ErrBadSubject        = errors.New("nats: invalid subject")
	ErrBadSubscription   = errors.New("nats: invalid subscription")
	ErrSlowConsumer      = errors.New("nats: slow consumer, messages dropped")
	ErrTimeout           = errors.New("nats: timeout")
	ErrNoServers         = errors.New("nats: no servers available for connection")
	ErrAuthorization     = errors.New("nats: authorization violation")
	ErrNoResponders      = errors.New("nats: no responders available for request")
	ErrMsgNoReply        = errors.New("nats: message does not have a reply")
	ErrDisconnected      = errors.New("nats: server is disconnected")
)

// Msg is a message.
type Msg struct {
	Subject string
	Reply   string
	Data    []byte
	Sub     *Subscription
	nc      *Conn
	seq     uint64
}

// Respond publishes data on the reply subject.
func (m *Msg) Respond(data []byte) error {
	if m == nil || m.Sub == nil {
		return ErrMsgNoReply
	}
	if m.Reply == "" {
		return ErrMsgNoReply
	}
	return m.Sub.conn.Publish(m.Reply, data)
}

// MsgHandler is a subscription callback.
type MsgHandler func(msg *Msg)

// ConnHandler is a connection event callback.
type ConnHandler func(*Conn)

// ErrHandler is the asynchronous error callback.
type ErrHandler func(*Conn, *Subscription, error)

// CustomDialer matches nats.go.
type CustomDialer interface{}

// ReconnectDelayHandler matches nats.go.
type ReconnectDelayHandler func(attempts int) time.Duration

// Options holds the options simpleiot sets.
type Options struct {
	Url                    string
	NoEcho                 bool
	Token                  string
	Timeout                time.Duration
	DrainTimeout           time.Duration
	PingInterval           time.Duration
	MaxPingsOut            int
	RetryOnFailedConnect   bool
	ReconnectBufSize       int
	ReconnectWait          time.Duration
	MaxReconnect           int
	CustomDialer           CustomDialer
	CustomReconnectDelayCB ReconnectDelayHandler
	AsyncErrorCB           ErrHandler
	ConnectedCB            ConnHandler
	ReconnectedCB          ConnHandler
	DisconnectedCB         ConnHandler
	ClosedCB               ConnHandler
}

// Option configures Options.
type Option func(*Options) error

func Timeout(t time.Duration) Option { return func(o *Options) error { o.Timeout = t; return nil } }
func DrainTimeout(t time.Duration) Option {
	return func(o *Options) error { o.DrainTimeout = t; return nil }
}
func PingInterval(t time.Duration) Option {
	return func(o *Options) error { o.PingInterval = t; return nil }
}
func MaxPingsOutstanding(n int) Option {
	return func(o *Options) error { o.MaxPingsOut = n; return nil }
}
func RetryOnFailedConnect(b bool) Option {
	return func(o *Options) error { o.RetryOnFailedConnect = b; return nil }
}
func ReconnectBufSize(n int) Option {
	return func(o *Options) error { o.ReconnectBufSize = n; return nil }
}
func ReconnectWait(t time.Duration) Option {
	return func(o *Options) error { o.ReconnectWait = t; return nil }
}
func MaxReconnects(n int) Option { return func(o *Options) error { o.MaxReconnect = n; return nil } }
func SetCustomDialer(d CustomDialer) Option {
	return func(o *Options) error { o.CustomDialer = d; return nil }
}
func CustomReconnectDelay(cb ReconnectDelayHandler) Option {
	return func(o *Options) error { o.CustomReconnectDelayCB = cb; return nil }
}
func Token(t string) Option { return func(o *Options) error { o.Token = t; return nil } }
func ErrorHandler(cb ErrHandler) Option {
	return func(o *Options) error { o.AsyncErrorCB = cb; return nil }
}
func ConnectHandler(cb ConnHandler) Option {
	return func(o *Options) error { o.ConnectedCB = cb; return nil }
}
func ReconnectHandler(cb ConnHandler) Option {
	return func(o *Options) error { o.ReconnectedCB = cb; return nil }
}
func DisconnectHandler(cb ConnHandler) Option {
	return func(o *Options) error { o.DisconnectedCB = cb; return nil }
}
func ClosedHandler(cb ConnHandler) Option {
	return func(o *Options) error { o.ClosedCB = cb; return nil }
}
func NoEcho() Option { return func(o *Options) error { o.NoEcho = true; return nil } }

// ---------------------------------------------------------------------------
// buses

// Mode of a bus.
type Mode int

const (
	// Inline: deliveries are queued on a bus-wide FIFO and executed
	// run-to-completion on the goroutine that published first.
	Inline Mode = iota
	// Async: one dispatcher goroutine per subscription (free running).
	Async
	// Controlled: every delivery waits for a grant of the scheduler (see sched.go).
	Controlled
)

// Bus is one "server".
type Bus struct {
	mu    sync.Mutex
	Name  string
	Token string
	mode  Mode
	up    bool

	subs        []*Subscription
	ctlSubs     []*Subscription // controlled mode: every subscription ever made (ended ones are skipped)
	conns       []*Conn
	queue       []delivery
	dispatching bool
	spies       []func(subject, reply string, data []byte)
	nextInbox   int
	nextSub     int
	nextConn    int
	seq         uint64
	// Published counts messages accepted by the bus.
	Published int
	Delivered int
}

type delivery struct {
	sub *Subscription
	msg *Msg
}

var (
	regMu sync.Mutex
	buses = map[string]*Bus{}
)

// NewBus registers a bus under the given URL (as passed to Connect).
func NewBus(url string, mode Mode) *Bus {
	b := &Bus{Name: url, mode: mode, up: true}
	regMu.Lock()
	buses[url] = b
	regMu.Unlock()
	return b
}

// GetBus returns the bus registered under url, or nil.
func GetBus(url string) *Bus {
	regMu.Lock()
	defer regMu.Unlock()
	return buses[url]
}

// Mode returns the delivery mode.
func (b *Bus) Mode() Mode { return b.mode }

// RemoveBus unregisters a bus.
func RemoveBus(url string) {
	regMu.Lock()
	delete(buses, url)
	regMu.Unlock()
}

// Spy registers a function that sees every message accepted by the bus.
func (b *Bus) Spy(f func(subject, reply string, data []byte)) {
	b.mu.Lock()
	b.spies = append(b.spies, f)
	b.mu.Unlock()
}

// Conn is a connection.
type Conn struct {
	Opts   Options
	bus    *Bus
	id     int
	closed atomic.Bool
	down   atomic.Bool // link down (controlled by the harness)
	subs   []*Subscription
	buf    []*Msg // published while the link is down

	// connection-event handlers run one after another, in the order of the events, on one
	// goroutine per connection (nats.go: the async callback dispatcher)
	cbMu      sync.Mutex
	cbQueue   []func()
	cbRunning bool
}

// Connect connects to a registered bus.
func Connect(url string, options ...Option) (*Conn, error) {
	var o Options
	o.Url = url
	for _, f := range options {
		if f != nil {
			if err := f(&o); err != nil {
				return nil, err
			}
		}
	}
	regMu.Lock()
	b := buses[url]
	regMu.Unlock()
	if b == nil {
		return nil, ErrNoServers
	}
	b.mu.Lock()
	if !b.up {
		b.mu.Unlock()
		return nil, ErrNoServers
	}
	if b.Token != "" && o.Token != b.Token {
		b.mu.Unlock()
		return nil, ErrAuthorization
	}
	b.nextConn++
	nc := &Conn{Opts: o, bus: b, id: b.nextConn}
	b.conns = append(b.conns, nc)
	b.mu.Unlock()
	if o.ConnectedCB != nil {
		nc.runHandler(o.ConnectedCB)
	}
	return nc, nil
}

// ConnectBus is Connect for harness code.
func (b *Bus) Connect(options ...Option) *Conn {
	if b.Token != "" {
		options = append(options, Token(b.Token))
	}
	nc, err := Connect(b.Name, options...)
	if err != nil {
		panic(err)
	}
	return nc
}

func (nc *Conn) runHandler(h ConnHandler) {
	if nc.bus.mode == Inline {
		h(nc)
		return
	}
	nc.enqueueCB(func() { h(nc) })
}

func (nc *Conn) enqueueCB(f func()) {
	nc.cbMu.Lock()
	nc.cbQueue = append(nc.cbQueue, f)
	if nc.cbRunning {
		nc.cbMu.Unlock()
		return
	}
	nc.cbRunning = true
	nc.cbMu.Unlock()
	go func() {
		for {
			nc.cbMu.Lock()
			if len(nc.cbQueue) == 0 {
				nc.cbRunning = false
				nc.cbMu.Unlock()
				return
			}
			f := nc.cbQueue[0]
			nc.cbQueue = nc.cbQueue[1:]
			nc.cbMu.Unlock()
			f()
		}
	}()
}

// ID returns the connection number on its bus (harness use).
func (nc *Conn) ID() int { return nc.id }

// TLSRequired is always false.
func (nc *Conn) TLSRequired() bool { return false }

// IsClosed reports whether Close was called.
func (nc *Conn) IsClosed() bool { return nc == nil || nc.closed.Load() }

// IsConnected reports link state.
func (nc *Conn) IsConnected() bool { return nc != nil && !nc.closed.Load() && !nc.down.Load() }

func goID() int64 {
	var buf [64]byte
	n := runtime.Stack(buf[:], false)
	f := strings.Fields(string(buf[:n]))
	if len(f) > 1 {
		id, _ := strconv.ParseInt(f[1], 10, 64)
		return id
	}
	return -1
}

func validPubSubject(s string) bool {
	return s != ""
}

func tokensOK(s string) bool {
	if s == "" {
		return false
	}
	for _, t := range strings.Split(s, ".") {
		if t == "" {
			return false
		}
	}
	return true
}

// matches reports whether literal subject subj matches pattern pat.
func matches(pat, subj string) bool {
	if !tokensOK(subj) {
		return false
	}
	pt := strings.Split(pat, ".")
	st := strings.Split(subj, ".")
	for i, p := range pt {
		if p == ">" {
			return len(st) > i && i == len(pt)-1
		}
		if i >= len(st) {
			return false
		}
		if p != "*" && p != st[i] {
			return false
		}
	}
	return len(pt) == len(st)
}

// Subscription is a subscription.
type Subscription struct {
	Subject string
	Queue   string
	conn    *Conn
	cb      MsgHandler
	id      int
	valid   bool
	// async/controlled mode
	mu       sync.Mutex
	pending  []*Msg
	wake     chan struct{}
	draining bool
	grant    chan struct{} // controlled mode: one token per delivery
	ended    bool
	gid      int64
	busy     bool // a callback is running (it may be blocked): no further grant until it returns
	// sync inbox
	inbox chan *Msg
	got   *Msg
}

// Subscribe registers an asynchronous subscription.
func (nc *Conn) Subscribe(subj string, cb MsgHandler) (*Subscription, error) {
	if nc == nil {
		return nil, ErrInvalidConnection
	}
	if nc.closed.Load() {
		return nil, ErrConnectionClosed
	}
	if subj == "" || strings.ContainsAny(subj, " \t\r\n") {
		return nil, ErrBadSubject
	}
	for _, t := range strings.Split(subj, ".") {
		if t == "" {
			return nil, ErrBadSubject
		}
	}
	if cb == nil {
		return nil, ErrBadSubscription
	}
	b := nc.bus
	b.mu.Lock()
	b.nextSub++
	s := &Subscription{Subject: subj, conn: nc, cb: cb, id: b.nextSub, valid: true}
	b.subs = append(b.subs, s)
	nc.subs = append(nc.subs, s)
	mode := b.mode
	b.mu.Unlock()
	if mode == Async {
		s.wake = make(chan struct{}, 1)
		go s.asyncLoop()
	}
	if mode == Controlled {
		s.grant = make(chan struct{})
		b.mu.Lock()
		b.ctlSubs = append(b.ctlSubs, s)
		b.mu.Unlock()
		go s.ctlLoop()
	}
	return s, nil
}

func (s *Subscription) asyncLoop() {
	for range s.wake {
		for {
			s.mu.Lock()
			if len(s.pending) == 0 {
				s.mu.Unlock()
				break
			}
			m := s.pending[0]
			s.pending = s.pending[1:]
			ok := s.valid || s.draining
			s.mu.Unlock()
			if ok {
				s.cb(m)
			}
		}
		s.mu.Lock()
		done := !s.valid && len(s.pending) == 0
		s.mu.Unlock()
		if done {
			return
		}
	}
}

// Unsubscribe removes the subscription.
func (s *Subscription) Unsubscribe() error {
	if s == nil {
		return ErrBadSubscription
	}
	nc := s.conn
	if nc == nil || nc.closed.Load() {
		return ErrConnectionClosed
	}
	b := nc.bus
	b.mu.Lock()
	if !s.valid {
		b.mu.Unlock()
		return ErrBadSubscription
	}
	s.remove()
	b.mu.Unlock()
	s.mu.Lock()
	s.pending = nil
	s.mu.Unlock()
	if s.wake != nil {
		select {
		case s.wake <- struct{}{}:
		default:
		}
	}
	if s.grant != nil {
		s.endCtl()
	}
	return nil
}

// remove must be called with bus lock held. (valid is written under both
// locks, so it may be read under either.)
func (s *Subscription) remove() {
	s.mu.Lock()
	s.valid = false
	s.mu.Unlock()
	b := s.conn.bus
	for i, x := range b.subs {
		if x == s {
			b.subs = append(b.subs[:i:i], b.subs[i+1:]...)
			break
		}
	}
	for i, x := range s.conn.subs {
		if x == s {
			s.conn.subs = append(s.conn.subs[:i:i], s.conn.subs[i+1:]...)
			break
		}
	}
}

// Drain removes interest; messages already queued are still delivered.
func (s *Subscription) Drain() error {
	if s == nil {
		return ErrBadSubscription
	}
	nc := s.conn
	if nc == nil || nc.closed.Load() {
		return ErrConnectionClosed
	}
	b := nc.bus
	b.mu.Lock()
	if !s.valid {
		b.mu.Unlock()
		return ErrBadSubscription
	}
	s.mu.Lock()
	s.draining = true
	s.mu.Unlock()
	s.remove()
	b.mu.Unlock()
	if s.wake != nil {
		select {
		case s.wake <- struct{}{}:
		default:
		}
	}
	if s.grant != nil {
		s.mu.Lock()
		empty := len(s.pending) == 0
		s.mu.Unlock()
		if empty {
			s.endCtl()
		}
	}
	return nil
}

// IsValid reports whether the subscription is still active (a draining
// subscription stays valid until its queue is empty).
func (s *Subscription) IsValid() bool {
	if s == nil {
		return false
	}
	s.mu.Lock()
	defer s.mu.Unlock()
	if s.draining && len(s.pending) > 0 {
		return true
	}
	return s.valid
}

// Pending returns queued messages and bytes.
func (s *Subscription) Pending() (int, int, error) {
	if s == nil {
		return -1, -1, ErrBadSubscription
	}
	s.mu.Lock()
	defer s.mu.Unlock()
	n := 0
	for _, m := range s.pending {
		n += len(m.Data)
	}
	return len(s.pending), n, nil
}

// Publish publishes data on subj.
func (nc *Conn) Publish(subj string, data []byte) error {
	return nc.publish(subj, "", data)
}

// PublishRequest publishes with a reply subject.
func (nc *Conn) PublishRequest(subj, reply string, data []byte) error {
	return nc.publish(subj, reply, data)
}

// PublishHook, when set, is called at the start of every publish on the publishing goroutine, before
// the message is routed (harness use: a scheduling point at the moment a reply leaves the store).
var publishHook atomic.Pointer[func(nc *Conn, subj string)]

// SetPublishHook installs (or, with nil, removes) the publish hook.
func SetPublishHook(f func(nc *Conn, subj string)) {
	if f == nil {
		publishHook.Store(nil)
		return
	}
	publishHook.Store(&f)
}

func (nc *Conn) publish(subj, reply string, data []byte) error {
	if nc == nil {
		return ErrInvalidConnection
	}
	if h := publishHook.Load(); h != nil {
		(*h)(nc, subj)
	}
	if nc.closed.Load() {
		return ErrConnectionClosed
	}
	if !validPubSubject(subj) {
		return ErrBadSubject
	}
	b := nc.bus
	if nc.down.Load() {
		// like nats.go with a reconnect buffer: accepted, sent when the link is back
		b.mu.Lock()
		nc.buf = append(nc.buf, &Msg{Subject: subj, Reply: reply, Data: append([]byte(nil), data...)})
		b.mu.Unlock()
		return nil
	}
	_, err := b.route(nc, subj, reply, data, true)
	return err
}

// route is the linearisation point of a publish: it fans the message out to
// all matching subscriptions. Returns the number of receivers.
func (b *Bus) route(nc *Conn, subj, reply string, data []byte, dispatch bool) (int, error) {
	cp := append([]byte(nil), data...)
	b.mu.Lock()
	b.Published++
	spies := b.spies
	var targets []*Subscription
	for _, s := range b.subs {
		if !s.valid {
			continue
		}
		if s.conn == nc && nc.Opts.NoEcho {
			continue
		}
		if s.conn.down.Load() {
			continue // the server cannot reach this client: the message is lost for it
		}
		if matches(s.Subject, subj) {
			targets = append(targets, s)
		}
	}
	mode := b.mode
	for _, s := range targets {
		m := &Msg{Subject: subj, Reply: reply, Data: cp, Sub: s, nc: s.conn}
		switch {
		case s.inbox != nil:
			// request inbox: filled at once, whatever the mode
			if s.got == nil {
				s.got = m
				select {
				case s.inbox <- m:
				default:
				}
			}
		case mode == Inline:
			b.queue = append(b.queue, delivery{s, m})
		default:
			b.seq++
			m.seq = b.seq
			s.mu.Lock()
			s.pending = append(s.pending, m)
			s.mu.Unlock()
			if mode == Async {
				select {
				case s.wake <- struct{}{}:
				default:
				}
			}
		}
	}
	b.mu.Unlock()
	for _, f := range spies {
		f(subj, reply, cp)
	}
	if mode == Inline && dispatch {
		b.drain(nil)
	}
	return len(targets), nil
}

// drain executes queued deliveries run-to-completion (inline mode). If stop
// is non-nil, draining ends as soon as stop() is true.
func (b *Bus) drain(stop func() bool) {
	b.mu.Lock()
	if b.dispatching {
		b.mu.Unlock()
		return
	}
	b.dispatching = true
	for len(b.queue) > 0 {
		if stop != nil && stop() {
			break
		}
		d := b.queue[0]
		b.queue = b.queue[1:]
		ok := d.sub.valid
		b.Delivered++
		b.mu.Unlock()
		if ok {
			d.sub.cb(d.msg)
		}
		b.mu.Lock()
	}
	b.dispatching = false
	b.mu.Unlock()
}

// Request sends a request and waits for the first reply.
func (nc *Conn) Request(subj string, data []byte, timeout time.Duration) (*Msg, error) {
	if nc == nil {
		return nil, ErrInvalidConnection
	}
	if nc.closed.Load() {
		return nil, ErrConnectionClosed
	}
	if !validPubSubject(subj) {
		return nil, ErrBadSubject
	}
	b := nc.bus
	b.mu.Lock()
	b.nextInbox++
	inbox := fmt.Sprintf("_INBOX.%d.%d", nc.id, b.nextInbox)
	b.nextSub++
	s := &Subscription{Subject: inbox, conn: nc, id: b.nextSub, valid: true, inbox: make(chan *Msg, 1)}
	b.subs = append(b.subs, s)
	inDispatch := b.dispatching
	mode := b.mode
	b.mu.Unlock()
	defer func() {
		b.mu.Lock()
		if s.valid {
			s.remove()
		}
		b.mu.Unlock()
	}()
	if mode == Inline && inDispatch {
		panic("nats shim: Request from inside a subscription callback is not supported on an inline bus")
	}
	if nc.down.Load() {
		// nats.go keeps the request in its reconnect buffer: it is sent when the link is back, and the
		// reply is accepted if it arrives before the timeout
		b.mu.Lock()
		nc.buf = append(nc.buf, &Msg{Subject: subj, Reply: inbox, Data: append([]byte{}, data...)})
		b.mu.Unlock()
		select {
		case m := <-s.inbox:
			return m, nil
		case <-time.After(timeout):
			return nil, ErrTimeout
		}
	}
	n, err := b.route(nc, subj, inbox, data, false)
	if err != nil {
		return nil, err
	}
	if n == 0 {
		return nil, ErrNoResponders
	}
	if mode == Inline {
		b.drain(func() bool { return s.got != nil })
		got := s.got
		// finish what the reply's sender still had queued (run to completion)
		b.drain(nil)
		if got == nil {
			return nil, ErrTimeout
		}
		return got, nil
	}
	select {
	case m := <-s.inbox:
		return m, nil
	case <-time.After(timeout):
		return nil, ErrTimeout
	}
}

// Flush is a no-op.
func (nc *Conn) Flush() error {
	if nc == nil {
		return ErrInvalidConnection
	}
	return nil
}

// Close closes the connection: subscriptions are removed, then the
// Disconnected and Closed handlers run.
func (nc *Conn) Close() {
	if nc == nil {
		return
	}
	b := nc.bus
	b.mu.Lock()
	if nc.closed.Load() {
		b.mu.Unlock()
		return
	}
	nc.closed.Store(true)
	for _, s := range append([]*Subscription{}, nc.subs...) {
		s.remove()
		if s.wake != nil {
			select {
			case s.wake <- struct{}{}:
			default:
			}
		}
		if s.grant != nil {
			defer s.endCtl()
		}
	}
	for i, c := range b.conns {
		if c == nc {
			b.conns = append(b.conns[:i:i], b.conns[i+1:]...)
			break
		}
	}
	wasDown := nc.down.Load()
	b.mu.Unlock()
	run := func() {
		if nc.Opts.DisconnectedCB != nil && !wasDown {
			nc.Opts.DisconnectedCB(nc)
		}
		if nc.Opts.ClosedCB != nil {
			nc.Opts.ClosedCB(nc)
		}
	}
	if b.mode == Inline {
		run()
	} else {
		nc.enqueueCB(run)
	}
}

// Subscriptions lists the active subscription subjects (harness use).
func (b *Bus) Subscriptions() []string {
	b.mu.Lock()
	defer b.mu.Unlock()
	var out []string
	for _, s := range b.subs {
		if s.inbox == nil {
			out = append(out, fmt.Sprintf("c%d:%s", s.conn.id, s.Subject))
		}
	}
	return out
}

// ---------------------------------------------------------------------------
// controlled mode: every delivery waits for a grant of the harness scheduler.
// Publishing is not gated: a publish is linearised at the call (the message is
// appended to the queues of all matching subscriptions, as one nats-server
// does), replies to requests go straight to the requester's inbox.

func (s *Subscription) ctlLoop() {
	s.mu.Lock()
	s.gid = goID()
	s.mu.Unlock()
	for range s.grant {
		s.mu.Lock()
		var m *Msg
		if len(s.pending) > 0 {
			m = s.pending[0]
			s.pending = s.pending[1:]
		}
		s.mu.Unlock()
		if m != nil {
			s.conn.bus.mu.Lock()
			s.conn.bus.Delivered++
			s.conn.bus.mu.Unlock()
			s.mu.Lock()
			s.busy = true
			s.mu.Unlock()
			s.cb(m)
		}
		s.mu.Lock()
		s.busy = false
		done := s.draining && len(s.pending) == 0
		s.mu.Unlock()
		if done {
			s.endCtl()
		}
	}
}

func (s *Subscription) endCtl() {
	s.mu.Lock()
	if !s.ended {
		s.ended = true
		close(s.grant)
	}
	s.mu.Unlock()
}

// PendingDelivery describes the head of one subscription's queue.
type PendingDelivery struct {
	Thread  int64  // goroutine id of the subscription's dispatcher
	Seq     uint64 // global publish order
	Conn    int
	Pattern string
	Subject string
	Reply   string // reply subject of the message (a request when non-empty)
	sub     *Subscription
}

func (p PendingDelivery) String() string {
	return fmt.Sprintf("#%d c%d[%s]<-%s", p.Seq, p.Conn, p.Pattern, p.Subject)
}

// PendingDeliveries lists, oldest first, the deliveries that can be granted now
// (one per subscription: per-subscription FIFO is preserved).
func (b *Bus) PendingDeliveries() []PendingDelivery {
	b.mu.Lock()
	subs := append([]*Subscription{}, b.ctlSubs...)
	b.mu.Unlock()
	var out []PendingDelivery
	for _, s := range subs {
		s.mu.Lock()
		if !s.ended && !s.busy && len(s.pending) > 0 {
			m := s.pending[0]
			out = append(out, PendingDelivery{s.gid, m.seq, s.conn.id, s.Subject, m.Subject, m.Reply, s})
		}
		s.mu.Unlock()
	}
	for i := 1; i < len(out); i++ {
		for j := i; j > 0 && out[j].Seq < out[j-1].Seq; j-- {
			out[j], out[j-1] = out[j-1], out[j]
		}
	}
	return out
}

// Grant lets the subscription's dispatcher run its next callback. The
// dispatcher must be parked (call synctest.Wait before).
func (b *Bus) Grant(p PendingDelivery) {
	p.sub.mu.Lock()
	ended := p.sub.ended
	p.sub.mu.Unlock()
	if !ended {
		p.sub.grant <- struct{}{}
	}
}

// ---------------------------------------------------------------------------
// link faults (harness API)

// Conns returns the open connections of the bus.
func (b *Bus) Conns() []*Conn {
	b.mu.Lock()
	defer b.mu.Unlock()
	return append([]*Conn{}, b.conns...)
}

// LinkDown cuts the link of one connection abruptly: deliveries queued for it
// are lost, the server stops routing to it, its publishes are buffered, and its
// Disconnected handler runs.
func (nc *Conn) LinkDown() {
	if nc == nil || nc.closed.Load() || nc.down.Load() {
		return
	}
	nc.down.Store(true)
	b := nc.bus
	b.mu.Lock()
	subs := append([]*Subscription{}, nc.subs...)
	b.mu.Unlock()
	for _, s := range subs {
		s.mu.Lock()
		s.pending = nil
		s.mu.Unlock()
	}
	if nc.Opts.DisconnectedCB != nil {
		nc.runHandler(nc.Opts.DisconnectedCB)
	}
}

// LinkUp restores the link: buffered publishes are sent in order, then the
// Reconnected handler runs (subscriptions survive, as nats.go re-subscribes).
func (nc *Conn) LinkUp() {
	if nc == nil || nc.closed.Load() || !nc.down.Load() {
		return
	}
	nc.down.Store(false)
	b := nc.bus
	b.mu.Lock()
	buf := nc.buf
	nc.buf = nil
	b.mu.Unlock()
	for _, m := range buf {
		_, _ = b.route(nc, m.Subject, m.Reply, m.Data, true)
	}
	if nc.Opts.ReconnectedCB != nil {
		nc.runHandler(nc.Opts.ReconnectedCB)
	}
}
