package nats

import "time"

// Sched is the controlled-mode scheduler hook (tier B); filled in by sched_ctl.go.
type Sched struct{ impl schedImpl }

type schedImpl interface {
	addSub(s *Subscription)
	removeSub(s *Subscription)
	drainSub(s *Subscription)
	closeConn(nc *Conn)
	publish(nc *Conn, subj, reply string, data []byte) error
	request(nc *Conn, inbox *Subscription, subj, reply string, data []byte, timeout time.Duration) (*Msg, error)
}

func (s *Sched) addSub(x *Subscription)    { s.impl.addSub(x) }
func (s *Sched) removeSub(x *Subscription) { s.impl.removeSub(x) }
func (s *Sched) drainSub(x *Subscription)  { s.impl.drainSub(x) }
func (s *Sched) closeConn(nc *Conn)        { s.impl.closeConn(nc) }
func (s *Sched) publish(nc *Conn, subj, reply string, data []byte) error {
	return s.impl.publish(nc, subj, reply, data)
}
func (s *Sched) request(nc *Conn, inbox *Subscription, subj, reply string, data []byte, timeout time.Duration) (*Msg, error) {
	return s.impl.request(nc, inbox, subj, reply, data, timeout)
}
