#!/bin/bash
# mut.sh <patch.diff> <Cxx> [tier] — run one check against a patched /repo, keeping the committed evidence file intact
set -u
patch="$(realpath "$1")"; prop="$2"; tier="${3:-quick}"
cd /verif
cp evidence/$prop.json /tmp/evidence_$prop.bak 2>/dev/null
(cd /repo && git apply "$patch") || { echo "patch does not apply"; exit 2; }
timeout 3000 ./run.sh $prop $tier; rc=$?
git -C /repo checkout -- .
[ -f /tmp/evidence_$prop.bak ] && mv /tmp/evidence_$prop.bak evidence/$prop.json
exit $rc
