#!/bin/bash
# mut.sh <patch.diff> <Cxx> [tier] — run one check against a patched copy of /repo.
# Neither /repo nor /verif is touched: the check runs in a private mount namespace in which /repo is a
# patched copy and /verif a scratch copy (so several of these, and background `vp run`s, can run side by side).
set -u
patch="$(realpath "$1")"; prop="$2"; tier="${3:-quick}"
W=$(mktemp -d /tmp/mutns.XXXXXX)
trap 'rm -rf "$W"' EXIT
rsync -a --exclude .git /repo/ "$W/repo/"
(cd "$W/repo" && git apply "$patch") || { echo "patch does not apply"; exit 2; }
rsync -a --exclude .git --exclude seeded --exclude replays /verif/ "$W/verif/"
lock=""
case "$prop" in C09|C20) lock="flock /tmp/verif_realnats.lock";; esac
$lock unshare -m sh -c "mount --bind '$W/repo' /repo && mount --bind '$W/verif' /verif && cd /verif && timeout 3000 ./run.sh $prop $tier"
rc=$?
# MUT_KEEP=<dir>: keep the evidence file and the replays of this run there
if [ -n "${MUT_KEEP:-}" ]; then mkdir -p "$MUT_KEEP"; cp "$W/verif/evidence/$prop.json" "$MUT_KEEP/" 2>/dev/null; cp -r "$W/verif/replays/$prop" "$MUT_KEEP/replays_$prop" 2>/dev/null; fi
exit $rc
