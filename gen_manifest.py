#!/usr/bin/env python3
# Generates MANIFEST.json from the table below (single source of truth for the interface file).
import json
ALL = ["C%02d" % i for i in range(1, 21)]
checks = {
 "C16": dict(
   category="exploration", design_ref="DESIGN.md §3 C16",
   technique="exhaustive enumeration of read segmentations and single damage events on the real CobsWrapper (bounded model checking of the implementation against a list reference model)",
   text="Every segmentation (all 2^(n-1) for short streams, all <=k cut sets for long ones) of every frame sequence over a boundary alphabet, and every single damage event at every position, is executed on the real CobsWrapper.Read/Write; the returned frames are compared with the written list. Exhaustive within the stated bounds, which is the right level for a pure sequential decoder whose bugs depend on where reads are cut.",
   note="Alphabet of payloads (incl. 0xff block boundary, buffer limit) rather than all byte strings; zero-length frames excluded; trusted: Go toolchain, scripted io.ReadWriteCloser."),
 "C10": dict(
   category="exploration", design_ref="DESIGN.md §3 C10",
   technique="exhaustive enumeration of values and of all ordered value pairs per supported field kind through the real Encode/Decode/DiffPoints/MergePoints (bounded model checking of the implementation against value equality)",
   text="For every supported field kind, every value of a boundary alphabet (thorough: all int slices over {0,1,2} up to length 4, all maps over 4 keys x 3 values) is round-tripped, and every ordered pair (a,b) is pushed through Diff then Merge on the decoded a; a 4-field struct is enumerated as a full product to show fields do not interfere; child lists are decoded for every type mix of up to 3 children. Exhaustive over the alphabets.",
   note="Value alphabets, not all values; nil and empty slices/maps identified; map key \"\" excluded (the encoding defines it as \"0\"); NaN excluded. Kinds include maps with pointer elements (map[string]*int, map[string]*string) and a 1000-element slice."),
 "C11": dict(
   category="exploration", design_ref="DESIGN.md §3 C11",
   technique="exhaustive enumeration of point lists (length 1 full product, all ordered pairs and triples over reduced alphabets) through Decode/MergePoints/MergeEdgePoints for every field kind and prior value, with recover() as crash oracle and a differential oracle for undeclared types",
   text="Every point list up to the stated length over an alphabet of hostile keys, values (NaN, Inf, 2^63, 2^64), tombstone counts (negative, odd, even) is decoded into every supported field kind, zero and populated; a panic, a change caused by undeclared types, or a result that differs from the result without the undeclared points is a violation.",
   note="Alphabets chosen around the shortcuts in decode.go (index parsing, KeyMaxInt, tombstone parity, overflow checks). Also keys that parse differently under another base (010, 0o10, 0b10, 1_0, 0x10). Part unsettable-targets: the same kinds behind unexported tagged fields and in a struct passed by value (error or no effect, never a panic)."),
 "C12": dict(
   category="exploration", design_ref="DESIGN.md §3 C12",
   technique="exhaustive enumeration: full cross product of per-field boundary alphabets through the real protobuf codecs (round trip), and all short byte strings / wire-aware strings / every truncation and single-byte substitution of valid encodings through every decoder (totality)",
   text="Round trip compares every field (value bit-wise, time to the ns, data) of every point of the product alphabet and of nodes with 0..2 points and edge points through all encode/decode pairs. Totality feeds all byte strings up to length 2 (thorough 3), all strings up to length 4 (5) over the declared tags/wire types, and all truncations and single-byte substitutions of 8 valid encodings to 13 decoders under recover().",
   note="internal/pb cannot be imported from outside the module, so reply messages (NodeRequest/NodesRequest) are assembled with protowire exactly as proto.Marshal lays them out; strings are valid UTF-8. Part successive-calls: results of two successive encodes / decodes must not share memory."),
 "C17": dict(
   category="exploration", design_ref="DESIGN.md §3 C17",
   technique="exhaustive enumeration of all 1-bit, 2-bit and <=16-bit burst error patterns at all positions (both bit orders) on real SerialEncode output, decided by the real SerialDecode; full product round trip over seq x subject x point lists",
   text="Every error pattern of the stated classes is applied to packets of every documented subject form and decoded by the real code: an accepted packet with different content is a violation. The only undetected patterns are the six p.<c> subjects within a 16-bit burst of 'log' (known findings); any other escape is reported.",
   note="Representative packets (payload 0..2 points) rather than all payloads: CRC detection of bursts <=16 is independent of content, the log bypass depends only on the subject, and all printable p.<c> subjects are enumerated in thorough."),
 "C14": dict(
   category="exploration", design_ref="DESIGN.md §3 C14",
   technique="exhaustive enumeration of (start,end) minute pairs x weekday/date filters x boundary instants through the real unexported schedule.activeForTime (in-package test injected by go test -overlay), compared with an independent integer interval model of the statement",
   text="Quick: a 13x13 boundary-minute grid x 11 weekday sets x 8 date lists x days holding week, month and year ends and a leap day x 15 instants per day (+-1 s and +-1 ns around every edge) x 4 time zones, plus every 7th start minute x all 1440 end minutes x single-weekday filters. Thorough: all 1440^2 pairs. Exhaustive within those grids.",
   note="The model is the property statement computed with integer arithmetic on UTC seconds; date lists are well-formed; they include repeated dates and dates that do not exist (2024-02-30, 2023-12-32), which name no day."),
 "C18": dict(
   category="exploration", design_ref="DESIGN.md §3 C18",
   technique="exhaustive enumeration of request PDUs (all 256 function codes x all data strings up to length 4/6 over a boundary byte alphabet; structured requests around every protocol limit) x 7 register maps through the real PDU.ProcessRequest on the real Regs, against a reference Modbus server written from the specification tables; write-then-read pairs",
   text="Every enumerated request is executed on a fresh real register file under recover() and a hang watchdog; the answer must be the byte-exact normal response of the reference server, or an exception of an applicable code, and registers must be as the reference says (unchanged after an exception to a read or single write).",
   note="Requests with trailing bytes or an inconsistent byte-count field are only checked for safety. Go error accepted only for requests shorter than the fixed header. Part server-frames: what Server.Listen does per packet (transport Decode, unit check, ProcessRequest, Encode) for arbitrary TCP and RTU bytes. Register maps include one built by overlapping AddReg(address, count) calls."),
 "C19": dict(
   category="exploration", design_ref="DESIGN.md §3 C19",
   technique="exhaustive enumeration of client API calls (every count 1..2000 / 1..125 at an address alphabet, single writes + read back, 65 537 consecutive TCP transactions) on the real Client <-> real Server.Listen over in-memory RTU and TCP transports, against the reference register file; every single-byte substitution/truncation/transaction-id mutation of responses; all 2^32 values through the converters (thorough); the RTU client behind the real respreader with the response handed out in pieces of at most k bytes per port read, each at once or 1 ms late (all patterns with at most one departure)",
   text="The values and the number of values returned by every call equal the reference content; illegal reads never return data; mutated frames are rejected or yield exactly the true data; converters are exact inverses bit for bit.",
   note="In-memory transports (packet pipe / net.Pipe) stand in for serial port and socket; the client API has no multi-write, so only the six calls it offers are driven. Part rtu-through-response-reader frames by real time (respreader chunk timeout 80 ms, gaps of 1 ms): transactions and delivery patterns are enumerated, goroutine timing inside the response reader is the runtime's; a failure is believed only if it repeats on 3 fresh links."),
 "C01": dict(
   category="model_checking", design_ref="DESIGN.md §3 C01",
   technique="stateless model checking of the real store: exhaustive DFS over choice sequences (point lists x all permutations x all batch compositions x one re-delivery) executed on a fresh real SQLite store over a deterministic in-process bus, reference model newest-timestamp-wins checked after every delivery",
   text="Every delivery schedule of every point list up to 3 (thorough 4) points over identities built around the shortcuts in the code (key \"\" vs \"0\", type+key concatenation collisions), for node points and edge points, is executed through the real NATS handlers; the read-back must hold exactly the newest delivered point per identity with all fields.",
   note="Bus = in-process stand-in for nats.go (inline mode: one global FIFO, a schedule real NATS can produce). Alphabets, not all strings/floats. 16 single-threaded shard processes. Parts *-same-payload: points of one identity that differ only in their time. Parts *-empty-type-n3: identities whose type is the empty string next to typed ones with the same key. Timestamps include both ends of the 64-bit nanosecond range."),
 "C03": dict(
   category="model_checking", design_ref="DESIGN.md §3 C03",
   technique="explicit-state search over write histories on the real store (state = store content + remaining depth, revisits pruned), with an independent Merkle recomputation, a cross-history differential (equal content => equal hashes) and storeMaint-changes-nothing evaluated in every state",
   text="From 4 seed states (empty, diamond, deleted mirror, detached populated subtree) all histories of 3/2 (thorough 4/3) operations over 44 operations (points new/newer/stale/duplicate, tombstone set/clear, edge points, on the 6 forward edges among root,A,B,C) are executed; after every operation every edge hash is recomputed from the replies by the harness's own CRC/XOR code.",
   note="Cyclic edges excluded (C05). Hash definition taken from docs/ref/sync.md and the property text. The operation alphabet includes equal-timestamp rewrites, older edge points and rewrites with a 300-byte text differing in the last byte. Also: the value -0.0, one batch with both spellings of key zero (node and edge points)."),
 "C05": dict(
   category="model_checking", design_ref="DESIGN.md §3 C05",
   technique="explicit-state search over graph states of the real store; in every state the complete menu of must-be-refused requests (self edge, root tombstone, missing node type, every cycle-closing edge through live or deleted edges, NaN at every batch position incl. NaN shadowed by a same-identity point, root tombstones of value 1, 3, 2, 0.5, -1, -2) is executed and followed by a full snapshot comparison and a spy on up.>; crashes/hangs are isolated by re-running the sequence 5x in separate processes",
   text="All graph states reachable by 2 (thorough 3) legal writes over the 9 directed edges among root,A,B,C (live or deleted) and node points; every refused request must answer with an error, leave the complete observable state (points, hashes) unchanged, publish nothing on up.>, and the instance must answer a follow-up write and read.",
   note="Reference graph decides refused/accepted (cycle = parent==child or child is an ancestor of parent through any edge). Refused menu also: 150-point batches with NaN at positions 64 / 100 / 149, NaN in points with a tombstone count, NaN shadowed inside the batch, root tombstones with other values, client.MoveNode / MirrorNode below a descendant."),
 "C06": dict(
   category="model_checking", design_ref="DESIGN.md §3 C06",
   technique="exhaustive enumeration of graph configurations (every DAG shape over root+3 nodes with each edge absent/live/tombstoned; root+4 live-only in quick, full in thorough) on the real store; for every node and edge every kind of write is executed and the set of up.* subjects seen by a bus spy is compared with graph reachability computed by a reference model",
   text="Set equality between observed and expected rebroadcast subjects (missing ancestor = violation, non-ancestor = violation), payload identical to the request, for node points (live edges) and edge points (any edges), incl. up.root.* iff the instance root is reached.",
   note="Shapes up to isomorphism (fixed topological order). Bus = in-process stand-in (inline). Per shape also: batches with several samples of one identity, every edge flipped (live<->deleted) with node points again, flipped back with node points again. Part root-mirrored-k2: the instance root itself (and N1) placed below a node D outside the tree."),
 "C09": dict(
   category="model_checking", design_ref="DESIGN.md §3 C09",
   technique="exhaustive cross product of HTTP methods x node routes x Authorization header kinds x bodies through the real api handler (ServeHTTP) with a bus spy and snapshot comparison; explicit-state search over user-placement histories on the real store for login/listing; real nats-server + real nats.go clients for the bus token",
   text="Every request with an invalid header must answer 401, cause zero bus messages and leave the store unchanged; every valid header must not answer 401. In every reachable placement state (move, mirror, delete, re-add, deleted groups; depth 5/6) a token is issued iff the user reaches the root through non-deleted edges, the issued token validates, wrong/empty credentials fail, and the node listing stays inside the subtrees of live placements. Bus: connects iff the token is exact.",
   note="JWT variants (HS384/512, expired, missing claims) are crafted with the instance key read from the database file by the harness. /v1/auth excluded from the 401 oracle. Header alphabet incl. every combination of {other key, tampered, expired} x iat/nbf {absent, past, future}; login with 15 near-miss credentials. Part http-database-without-key: store files with a root and no signing key (NULL, empty blob, column dropped) reopened twice; forged tokens (empty key, zero byte, lost key) must be refused, issued tokens survive the next restart."),
 "C15": dict(
   category="model_checking", design_ref="DESIGN.md §3 C15",
   technique="exhaustive enumeration of (special point content x tree shape x position x import target x preserveIDs) through the real client.ExportNodes / ImportNodes on real stores (two instances for cross-instance import), differential oracle: imported subtree vs exported subtree under one id bijection",
   text="Every combination is built on a fresh store, exported to YAML and imported under the same parent, another parent and another instance, with and without id preservation; shape, node types, every point (type, normalised key, value bit-wise, text, tombstone), edge points, id replacement consistency incl. node-id references, the import marker on the top node only, and absence of deleted nodes are compared.",
   note="Known findings (pinned YAML encoder): 13 exact strings and the class of floats printed as d e+-x. Quick: full content alphabet on one configuration + reduced alphabet on all configurations. 10 tree shapes incl. moved top node and moved child (oldest edge tombstoned)."),
 "C04": dict(
   category="fault_enumeration", design_ref="DESIGN.md §2.5, §3 C04",
   technique="exhaustive crash-point enumeration: the real writer process (real store on real SQLite files) is SIGKILLed by strace fault injection at EVERY state-changing system call on the store files (first-time initialisation, each write transaction, shutdown/checkpoint), then the real recovery path runs on the surviving files and is compared with the reference states of the acknowledged prefix",
   text="For every kill point N: the store opens again, root id and signing key are those announced before the crash (a pre-crash token validates), the recovered content equals the reference state after k or k+1 requests where k = acknowledgements received before death (no acknowledged write lost, each batch all-or-nothing), all hashes are consistent (C03 recomputation), the instance accepts a write, and identity is stable over a further restart.",
   note="Process death only (page cache survives); wal-index (mmap) intermediate states are not separate crash points; strace counts injections per thread, so the writer pins the phase under test to the traced main thread (two writer modes). Quick: histories 0 (all transactional elements), 1 (mirror / diamond), 3 (120-point batch, 60-point overwrite) 4 (9 kB texts: overflow page chains written, rewritten, shortened) and 5 (a second node placed below the root sentinel at run time: the instance root switches; the token key must survive); thorough: all six histories x both modes x configured / generated root id."),
 "C13": dict(
   category="model_checking", design_ref="DESIGN.md §3 C13",
   technique="stateless model checking of the real RuleClient.Run inside testing/synctest bubbles (virtual clock, quiescence by synctest.Wait): exhaustive enumeration of rule configurations x sequences of point batches / clock advances, every publication of the rule compared with a reference interpreter after each batch",
   text="Each of 106 single point conditions (all operators, value kinds and filter combinations; 34 with operator / text / number fields left over from another value type), all ordered pairs over a reduced set, and 6 schedule windows (incl. midnight wrap) alone or combined with a number condition are run against all batch sequences of length 2 (thorough 3, plus two-point batches) / all operation sequences of length 4 (6) over clock advances and points. Condition active points, the rule active point, exactly one run of the right action list with the rule as origin, and the opposite list marked inactive are checked as multisets per batch.",
   note="Narrow seam: no store; the rule receives up.<parent>.<node> messages as the store would rebroadcast them (C06). Raw-key filter semantics kept outside the alphabet. Compiled with go1.26.8 for testing/synctest. Further parts: every combination of stored active flags of rule and conditions (incl. the rule without conditions), misconfigured actions in front of the lists, two actions per list, condition value changed while the rule runs, schedule conditions with weekday sets and a second schedule condition."),
 "C07": dict(
   category="model_checking", design_ref="DESIGN.md §2.3, §3 C07",
   technique="stateless model checking with a controlled scheduler: real store + real client.NewManager + instrumented client in one testing/synctest bubble per execution; every bus delivery waits for a grant of the scheduler (default oldest first), the explorer enumerates all operation histories and, deviation-bounded, alternative delivery orders, early driver operations, the point at which Manager.Stop is issued (before every scheduler step) and which ready case the select statement of Manager.Run takes (client/manager.go rewritten by cmd/vselgen as a build overlay so that the explorer, not the Go runtime, picks among ready cases)",
   text="Five parts: all histories of 3 (thorough 4) operations over 14 with up to 1 (2) scheduling deviations; child churn depth 3; group churn depth 4 (5) with clients that need 3 s to stop; Manager.Stop before every scheduler step after 2 (3) unquiesced operations; Stop combined with a second operation issued k steps into the activity of the first (2 deviations). Oracles: never two clients for one placement at any time, at quiescence (two rescan periods later) the running set equals the reference graph's set and the set a fresh manager starts on the same store, every client's folded configuration equals Decode of the store's node with children, Manager.Stop stops every client and returns.",
   note="Scheduling points are message deliveries and driver operations; goroutine interleavings between two grants are not enumerated; virtual time advances in 10 ms steps only when nothing is deliverable."),
 "C08": dict(
   category="model_checking", design_ref="DESIGN.md §3 C08",
   technique="same controlled-scheduler rig as C07: exhaustive enumeration of batch sequences (author x target x shape) with the Points/EdgePoints callbacks of the instrumented client as observation, plus a deviation-bounded exploration of delivery orders",
   text="All sequences of 2 (thorough 3) batches over 23 (4 authors x 4 targets, two-point batches, an edge-point batch); foreign changes in the subtree are told exactly once, in acceptance order, with identical points; own changes never; folding what was told (plus own writes) into the start configuration equals the store's node.",
   note="Batches with empty origin aimed at a descendant are unclassified by the statement and unconstrained. Further parts: grand-child deleted / written / restored (depth 4), edge points on the child and grand-child edges, batches the store refuses (NaN) must not be told. Batches that carry one identity twice with one timestamp (store and folding client must agree)."),
 "C02": dict(
   category="model_checking", design_ref="DESIGN.md §2.3, §3 C02",
   technique="stateless model checking with the controlled scheduler over TWO buses: two real stores (downstream, upstream) linked by the real client.SyncClient in one testing/synctest bubble per execution; exhaustive enumeration of operation histories (writes, creations, deletions, undeletions on either side, outages, periods) and, deviation-bounded, delivery orders; differential oracle downstream subtree = upstream subtree plus newest-accepted-write reference",
   text="After an initial catch-up, all histories of 3 (thorough 4) operations over 24 (point / new identity / edge point / mirror-placement edge point / creation / deletion / undeletion on either side, sync disabled / enabled, link lost abruptly / restored, upstream restarted, upstream stopped with its clients reconnecting before its store answers / store back, a period passes) are run, then the link is brought up and 5 sync periods pass; the device subtrees read through nodes.* (deleted included) must be identical in node set, types, every point (all fields but origin) and edge points, and hold the newest accepted write per identity.",
   note="Outages are modelled four ways: sync disabled/re-enabled (clean disconnect), abrupt loss of the sync client's upstream connection (queued deliveries lost, publishes buffered, handlers called in order), upstream restart, upstream bus reachable while its store is away. Known findings: tombstones and writes on or below deleted nodes made during an outage (4 keys). Operations also: sync settings saved again while connected, a point marked removed (point-level tombstone) on a shared identity. An operation issued before the sync client holds its upstream subscription again counts as an outage operation."),
 "C20": dict(
   category="model_checking", design_ref="DESIGN.md §2.3, §2.4, §3 C20",
   technique="stateless model checking with a preemption-bounded controlled scheduler on the real store: scheduling points are every bus delivery and, through an import-rewriting overlay of store/sqlite.go (database/sql -> gated wrapper, sync.Mutex -> gated channel mutex), every SQL operation and every writeLock.Lock; concurrent client threads (node writer, edge writer, reader, verify, maintenance, shutdown) are explored for all schedules with at most 2 (thorough 3) preemptions inside testing/synctest bubbles",
   text="For all triples of client threads and all schedules within the preemption bound: every request is answered (a schedule where nothing is enabled for 31 virtual seconds is a deadlock), a read issued after an acknowledgement sees the write, a reader's successive reads never go back, the final content is the newest acknowledged write per identity with consistent hashes and nothing for storeMaint to repair; with a concurrent Store.Stop at every point: Stop returns, the file reopens with the same root and all acknowledged writes.",
   note="The data-race clause cannot be seen by a cooperative scheduler; it is covered by a separate free-running `go test -race` pass of the same thread bodies (sampling, reported in the evidence as such). Interleavings between two scheduling points are not enumerated. Further parts: threads X / Y (requests that must be refused; each must get the error text it gets when sent alone), a scheduling point where a reply leaves the store, Store.Stop at 4 positions around the start of Run, and the server-shutdown part (server.Server as cmd/siot assembles it, real nats.go, 24 scenarios in child processes, real time). Oracle added in round 12: a request whose delivery to a store handler was granted must be answered (grants vs. replies counted by the scheduler), also around Store.Stop (part shutdown-single-client-p2, 2 preemptions). Violations found by a shard are re-run in a fresh process before they are reported."),
}
pending_reason = "check not built yet in this round (planned in DESIGN.md §3); not claimed until its harness exists"
m = {
 "version": 1,
 "setup_cmd": "./run.sh setup",
 "hooks": {
   "guard": "verif",
   "enable": "no source hooks in /repo: instrumentation is injected at build time with `go build/test -overlay` (virtual in-package test files; for C20 a copy of store/sqlite.go whose database/sql and sync imports are rewritten to gated wrappers, generated by gen_gated.py from the current tree; for the tier-B binary copies of client/manager.go, sync.go and rule.go whose select statements are rewritten by h/cmd/vselgen so that the explorer decides among ready cases) and a `replace` of github.com/nats-io/nats.go in the harness module; /repo is built as-is",
   "baseline_off_cmd": "cd /repo && GOFLAGS=-mod=mod go test -p 1 -vet=off -count=1 ./...",
   "source_commits": [],
   "add_only": True,
 },
 "engines": [
   {"name": "mc", "path": "h/mc", "serves_properties": sorted(checks), "kind_free_text": "hand-written stateless explorer: exhaustive deviation-bounded DFS over choice sequences (with optional state-key pruning = explicit-state search), process sharding with crash/hang isolation, exhaustive plain enumerations, evidence/replay/known-findings handling"},
   {"name": "natsgo-shim", "path": "shim/natsgo", "serves_properties": ["C01","C02","C03","C04","C05","C06","C07","C08","C09","C13","C15","C20"], "kind_free_text": "deterministic in-process replacement of module github.com/nats-io/nats.go (replace directive in the harness module only): inline / async / controlled delivery"},
   {"name": "vsel", "path": "h/vsel", "serves_properties": ["C02","C07","C08","C13"], "kind_free_text": "select statements of client/manager.go, sync.go and rule.go under explorer control: go/ast source rewrite (h/cmd/vselgen, applied as build overlay) + runtime that inspects channel readiness without receiving and lets the explorer choose among ready cases"},
   {"name": "crash-enumerator", "path": "h/cmd/verifs/c04.go", "serves_properties": ["C04"], "kind_free_text": "strace fault injection: real SIGKILL at every state-changing system call of a real writer process, real recovery on the surviving files"},
 ],
 "checks": [],
 "notes": "All checks: ./run.sh <id> quick|thorough ; replay: ./run.sh replay <file>. known-findings.json lists genuine defects (known / fixed).",
 "not_applicable": [],
}
for pid in ALL:
    if pid in checks:
        c = checks[pid]
        m["checks"].append({
          "property_id": pid,
          "quick_cmd": "./run.sh %s quick" % pid,
          "thorough_cmd": "./run.sh %s thorough" % pid,
          "evidence_file": "/verif/evidence/%s.json" % pid,
          "replay_cmd_template": "./run.sh replay {path}",
          "engine": "mc",
          "level_claimed": {"category": c["category"], "text": c["text"], "design_ref": c["design_ref"]},
          "level_note": c["note"],
          "technique": c["technique"],
        })
    else:
        m["not_applicable"].append({"property_id": pid, "reason": pending_reason})
json.dump(m, open("/verif/MANIFEST.json", "w"), indent=1)
print("claimed:", sorted(checks))
