#!/usr/bin/env python3
# writes seeded/<name>/meta.json from the evaluation logs + a description table
import json, os, sys, re, subprocess
D = {
 "C01-a": ("C01", "Points.Collapse carries the largest tombstone count of a batch over to the newest point of the identity (copied from Points.Add)", "one batch with two points of one identity where the OLDER one has the larger tombstone count; a reader that compares the tombstone field", "missed at first (timestamps rose with the tombstone alphabet); caught after decoupling timestamp order from the other fields (4 timestamp assignments)"),
 "C03-a": ("C03", "updateHashHelper stops walking up from an edge already in its cache ('memoisation')", "a node mirrored under two parents whose common ancestor is not the root (deep diamond), then a point write at or below it", "caught as first written"),
 "C05-a": ("C05", "Collapse() runs before the NaN check in nodePoints/edgePoints", "one batch holding a NaN point AND a second point of the same identity that wins Collapse (newer, or later in the batch)", "missed at first (NaN batches used three distinct types); caught after adding same-identity / key-alias NaN batches to the refused menu"),
 "C06-a": ("C06", "DbSqlite.up() breaks out of the loop at the first tombstoned edge instead of skipping it", "a node with an older tombstoned parent edge and a newer live one (moved node), then a node-point write at or below it", "caught as first written"),
 "C07-a": ("C07", "Manager.scan deletes the client state right after asking the client to stop", "group deleted, rescan, group undeleted, second rescan before the (slow) old client has exited: two clients for one placement, one of them untracked", "missed at first (instant-stop clients, empty start state); caught after adding the populated start state, 3 s stop latency and the rescan-trigger operation (part group-churn-slow-clients); building that part also exposed the manager's stop-channel spin (fixed)"),
 "C09-a": ("C09", "userCheck marks the upstream node 'walked' before checking the edge tombstone", "a user whose only live path to the root passes through a node already met at the far end of an older deleted edge (moved into a subgroup; mirrored + first group deleted)", "caught as first written"),
 "C13-a": ("C13", "ruleProcessPoints loops conditions outside points, comparing against the pre-batch state", "one batch with two points matching the same condition, the first flipping it, the last flipping it back", "missed by quick at first (single-point batches; thorough had two-point batches); caught after moving a two-point-batch part into quick; the new part first raised a false alarm on transient condition publications, which the oracle now settles per batch"),
 "C16-a": ("C16", "foundStart after moving leftover bytes decided from the first byte only", "a device read ending inside the next frame after its leading null, the following read starting exactly with that frame's delimiter", "caught as first written"),
 "C02-a": ("C02", "syncNode no longer resets its upstreamProcessed map between the node-point and the edge-point comparison", "an outage during which an edge point with a new identity is written upstream on a node below the device root, at an index already matched by a node point", "caught as first written (diverged/content-differs at depth 3)"),
 "C04-a": ("C04", "edgePoints records the new root in meta after the commit of the root edge instead of inside the transaction", "first-time initialisation without a configured instance id, process death between the two commits: the restart creates a second root", "missed at first (for crashes during initialisation only 'opens again, stable identity' was demanded); caught after adding the single-root oracle (the file holds exactly one node under \"root\", equal to meta and to the instance root)"),
 "C08-a": ("C08", "the per-client subscription callback in Manager.scan compares origins with the loop variable n.ID instead of cs.node.ID (one variable per loop under go 1.20)", "a manager with at least two nodes of its type: every client but the last one filters by the last node's id", "missed at first (one client in the fixture); caught after adding a sibling client of the same type and that sibling as an author"),
 "C10-a": ("C10", "DiffPoints nil -> non-nil *struct falls through to the field-by-field diff against a zero struct", "a pointer-to-struct field going from nil to a pointer to an all-zero struct", "caught as first written"),
 "C11-a": ("C11", "SetValue initialises a nil *struct only if the group holds a live point", "nil *struct target and a batch of that type whose points are all tombstoned but do not cover every field", "caught as first written"),
 "C12-a": ("C12", "SerialDecode: the inner length guard before the payload slice removed as 'redundant'", "a 17- or 18-byte packet whose subject is not log and whose last two bytes are a VALID CRC of the rest", "missed at first (truncations of valid packets never carry a valid CRC); caught after adding the part that builds packets of every length 3..40 with a correct checksum"),
}
for name, (prop, what, needs, note) in D.items():
    d = '/verif/seeded/' + name
    if not os.path.isdir(d): continue
    rc = open(d + '/check_quick.rc').read().strip() if os.path.exists(d + '/check_quick.rc') else '?'
    vio = [l.strip()[:300] for l in open(d + '/check_quick.log') if l.startswith('VIOLATION')][:3] if os.path.exists(d + '/check_quick.log') else []
    def rcof(f):
        p = d + '/' + f
        if not os.path.exists(p): return None
        t = open(p).read()
        return 'FAIL' if re.search(r'^(--- FAIL|FAIL)', t, re.M) else ('ok' if re.search(r'^ok ', t, re.M) else '?')
    meta = {"property": prop, "change": what, "needs_to_manifest": needs,
            "confirmed": {"existing_suite_with_change": rcof('suite_with_change.log'), "demo_with_change": rcof('demo_with_change.log'), "demo_without_change": rcof('demo_without_change.log'),
                          "how": "seed_eval.sh: demo test run in the agent's worktree with and without the source change (git stash), then the repository suite with the change, each inside `unshare -rn` (private loopback; the suite binds fixed ports)"},
            "check": {"command": "./run.sh %s quick" % prop, "exit_code": rc, "violations": vio, "history": note},
            "files": {"patch": "patch.diff", "demonstration": sorted(os.path.relpath(os.path.join(r, f), d) for r, _, fs in os.walk(d + '/demo') for f in fs), "agent_report": "SEED_REPORT.md"}}
    json.dump(meta, open(d + '/meta.json', 'w'), indent=1)
    print(name, meta['confirmed']['existing_suite_with_change'], meta['confirmed']['demo_with_change'], meta['confirmed']['demo_without_change'], 'check rc', rc)
