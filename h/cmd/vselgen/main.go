// vselgen rewrites the select statements of one Go source file so that the explorer can decide which
// ready case is taken (see package vsel). Usage: vselgen <in.go> <out.go>. Only selects whose
// communication clauses are all receives (two or more) are rewritten; everything else is copied as is.
// The output is used with `go build -overlay`; the input file is never modified.
package main

import (
	"fmt"
	"go/ast"
	"go/parser"
	"go/token"
	"os"
	"regexp"
	"sort"
	"strings"
)

type edit struct {
	from, to int
	text     string
}

func main() {
	if len(os.Args) != 3 {
		fmt.Fprintln(os.Stderr, "usage: vselgen in.go out.go")
		os.Exit(3)
	}
	src, err := os.ReadFile(os.Args[1])
	if err != nil {
		fmt.Fprintln(os.Stderr, "HARNESS-ERROR:", err)
		os.Exit(3)
	}
	fset := token.NewFileSet()
	f, err := parser.ParseFile(fset, os.Args[1], src, parser.ParseComments)
	if err != nil {
		fmt.Fprintln(os.Stderr, "HARNESS-ERROR: parse:", err)
		os.Exit(3)
	}
	off := func(p token.Pos) int { return fset.Position(p).Offset }
	var edits []edit
	n := 0
	skipped := 0
	var covered [][2]int
	ast.Inspect(f, func(nd ast.Node) bool {
		sel, ok := nd.(*ast.SelectStmt)
		if !ok {
			return true
		}
		for _, c := range covered { // nested inside a rewritten select: leave it alone
			if off(sel.Pos()) >= c[0] && off(sel.End()) <= c[1] {
				return true
			}
		}
		type cl struct {
			commFrom, commTo int // the comm statement
			chFrom, chTo     int // the channel expression inside it
			bodyFrom, bodyTo int
		}
		var cls []cl
		var deflt string
		okAll := true
		for _, s := range sel.Body.List {
			cc := s.(*ast.CommClause)
			bodyFrom, bodyTo := off(cc.Colon)+1, off(cc.End())
			if cc.Comm == nil {
				deflt = string(src[bodyFrom:bodyTo])
				if deflt == "" {
					deflt = "\n"
				}
				continue
			}
			var rx ast.Expr
			switch st := cc.Comm.(type) {
			case *ast.ExprStmt:
				rx = st.X
			case *ast.AssignStmt:
				if len(st.Rhs) == 1 {
					rx = st.Rhs[0]
				}
			}
			for {
				if p, ok := rx.(*ast.ParenExpr); ok {
					rx = p.X
					continue
				}
				break
			}
			u, ok := rx.(*ast.UnaryExpr)
			if !ok || u.Op != token.ARROW {
				okAll = false
				break
			}
			cls = append(cls, cl{off(cc.Comm.Pos()), off(cc.Comm.End()), off(u.X.Pos()), off(u.X.End()), bodyFrom, bodyTo})
		}
		if !okAll || len(cls) < 2 {
			skipped++
			return true
		}
		// labels defined inside bodies would be duplicated: rename them per copy
		labelRe := regexp.MustCompile(`(?m)^\s*([A-Za-z_][A-Za-z0-9_]*):\s*$`)
		var b strings.Builder
		id := n
		n++
		fmt.Fprintf(&b, "{ // select #%d under explorer control (vselgen)\n", id)
		var names []string
		for i, c := range cls {
			nm := fmt.Sprintf("_vs%d_%d", id, i)
			names = append(names, nm)
			fmt.Fprintf(&b, "%s := %s\n", nm, src[c.chFrom:c.chTo])
		}
		clause := func(i int, copyNo int) string {
			c := cls[i]
			comm := string(src[c.commFrom:c.chFrom]) + names[i] + string(src[c.chTo:c.commTo])
			body := string(src[c.bodyFrom:c.bodyTo])
			for _, m := range labelRe.FindAllStringSubmatch(body, -1) {
				lbl := m[1]
				if lbl == "default" {
					continue
				}
				body = regexp.MustCompile(`\b`+lbl+`\b`).ReplaceAllString(body, fmt.Sprintf("%s_vs%d", lbl, copyNo))
			}
			return "case " + comm + ":" + body + "\n"
		}
		fmt.Fprintf(&b, "switch vsel.Pick(%s) {\n", strings.Join(names, ", "))
		for i := range cls {
			fmt.Fprintf(&b, "case %d:\nselect {\n%s}\n", i, clause(i, i))
		}
		b.WriteString("default:\nselect {\n")
		for i := range cls {
			b.WriteString(clause(i, len(cls)))
		}
		if deflt != "" {
			b.WriteString("default:" + deflt + "\n")
		}
		b.WriteString("}\n}\n}")
		edits = append(edits, edit{off(sel.Pos()), off(sel.End()), b.String()})
		covered = append(covered, [2]int{off(sel.Pos()), off(sel.End())})
		return true
	})
	if n == 0 {
		fmt.Fprintf(os.Stderr, "vselgen: %s: no select rewritten (%d left as they are)\n", os.Args[1], skipped)
	}
	sort.Slice(edits, func(i, j int) bool { return edits[i].from > edits[j].from })
	out := string(src)
	for _, e := range edits {
		out = out[:e.from] + e.text + out[e.to:]
	}
	if n > 0 {
		// add the import
		imp := "import vsel \"verif/h/vsel\"\n"
		i := strings.Index(out, "\nimport ")
		if i < 0 {
			fmt.Fprintln(os.Stderr, "HARNESS-ERROR: no import declaration in", os.Args[1])
			os.Exit(3)
		}
		out = out[:i+1] + imp + out[i+1:]
	}
	if err := os.WriteFile(os.Args[2], []byte(out), 0o644); err != nil {
		fmt.Fprintln(os.Stderr, "HARNESS-ERROR:", err)
		os.Exit(3)
	}
	fmt.Printf("vselgen: %s: %d select statement(s) rewritten, %d left as they are\n", os.Args[1], n, skipped)
}
