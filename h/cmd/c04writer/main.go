// Command c04writer is the process that gets killed: it opens a store on the
// given file (real store.NewStore, inline in-process bus) and runs one write
// history, reporting progress on stdout with one write(2) per line:
//
//	OPENED root=<id> token=<jwt>     after the (first) open completed
//	ACK <k>                          after the k-th request was acknowledged
//	DONE
//
// strace counts injected calls per thread, so the writer pins the phase under
// test to the main thread (the only one traced, no -f):
//
//	mode A: main thread = open/initialise + the write history; shutdown elsewhere
//	mode B: main thread = open/initialise + store.Run, i.e. the shutdown path
//	        (unsubscribe, database close with WAL checkpoint); history elsewhere
package main

import (
	"context"
	"fmt"
	"io"
	"log"
	"os"
	"runtime"
	"strconv"
	"strings"
	"time"

	"github.com/nats-io/nats.go"
	"github.com/simpleiot/simpleiot/client"
	"github.com/simpleiot/simpleiot/store"
	"verif/h/c04"
)

func say(f string, a ...any) { os.Stdout.Write([]byte(fmt.Sprintf(f, a...) + "\n")) }

func main() {
	runtime.LockOSThread()
	log.SetOutput(io.Discard)
	if len(os.Args) < 5 {
		fmt.Fprintln(os.Stderr, "usage: c04writer <dbfile> <history> <rootid|-> <A|B>")
		os.Exit(2)
	}
	file, hist, root, mode := os.Args[1], os.Args[2], os.Args[3], os.Args[4]
	if root == "-" {
		root = ""
	}
	h, _ := strconv.Atoi(hist)
	const url = "nats://writer:4222"
	bus := nats.NewBus(url, nats.Inline)
	st, err := store.NewStore(store.Params{File: file, Server: url, Nc: bus.Connect(), ID: root})
	if err != nil {
		say("OPENFAIL %v", err)
		os.Exit(4)
	}
	history := func() {
		ctx, cancel := context.WithTimeout(context.Background(), 60*time.Second)
		defer cancel()
		if err := st.WaitStart(ctx); err != nil {
			say("OPENFAIL %v", err)
			os.Exit(4)
		}
		nc := bus.Connect()
		rn, err := client.GetRootNode(nc)
		if err != nil {
			say("OPENFAIL root: %v", err)
			os.Exit(4)
		}
		tok, _ := st.GetAuthorizer().NewToken("u")
		say("OPENED root=%s token=%s", rn.ID, tok)
		// a write counts as acknowledged the moment the store PUBLISHES its (empty = success) reply, not
		// when the requester has finished processing it: the line is printed from a bus spy, on the
		// handler's own thread, before the handler goes on
		acks := 0
		bus.Spy(func(subject, reply string, d []byte) {
			if strings.HasPrefix(subject, "_INBOX.") && len(d) == 0 {
				acks++
				say("ACK %d", acks)
			}
		})
		for k, q := range c04.History(h, rn.ID) {
			if err := c04.Send(nc, q); err != nil {
				say("REFUSED %d %v", k+1, err)
				os.Exit(5)
			}
		}
		st.Stop(nil)
	}
	done := make(chan struct{})
	if mode == "B" {
		go func() { runtime.LockOSThread(); history(); close(done) }()
		_ = st.Run() // shutdown path on the main thread
		<-done
	} else {
		go func() { runtime.LockOSThread(); _ = st.Run(); close(done) }()
		history()
		<-done
	}
	say("DONE")
}
