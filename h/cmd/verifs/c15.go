package main

import (
	"fmt"
	"math"
	"sort"
	"strconv"
	"strings"
	"time"

	"github.com/simpleiot/simpleiot/client"
	"github.com/simpleiot/simpleiot/data"
	"verif/h/mc"
	"verif/h/sh"
)

// C15: export followed by import reproduces the tree.

// tree node of the generated configuration
type c15Node struct {
	id       string
	typ      string
	desc     string
	parent   int // index into the node list; -1 = top (placed under the instance root)
	deleted  bool
	moved    bool // first placed under an unrelated group and deleted there, then placed where it belongs (its oldest edge is a tombstoned one)
	mirrorOf int  // >=0: this entry is a second placement of that node (no own points)
	points   data.Points
	edgePts  data.Points
}

type c15Shape struct {
	name  string
	nodes []c15Node
}

func c15Shapes() []c15Shape {
	n := func(i int, typ string, parent int) c15Node {
		return c15Node{id: fmt.Sprintf("id%d", i), typ: typ, desc: fmt.Sprintf("n%d", i), parent: parent, mirrorOf: -1}
	}
	del := func(c c15Node) c15Node { c.deleted = true; return c }
	mov := func(c c15Node) c15Node { c.moved = true; return c }
	mir := func(of, parent int) c15Node { return c15Node{parent: parent, mirrorOf: of} }
	return []c15Shape{
		{"single", []c15Node{n(0, "group", -1)}},
		{"one-child", []c15Node{n(0, "group", -1), n(1, "variable", 0)}},
		{"two-children", []c15Node{n(0, "group", -1), n(1, "variable", 0), n(2, "rule", 0)}},
		{"chain-3", []c15Node{n(0, "group", -1), n(1, "group", 0), n(2, "variable", 1)}},
		{"child-with-two", []c15Node{n(0, "group", -1), n(1, "rule", 0), n(2, "condition", 1), n(3, "action", 1)}},
		{"deleted-child", []c15Node{n(0, "group", -1), n(1, "variable", 0), del(n(2, "variable", 0)), n(3, "variable", 1)}},
		{"deleted-subtree", []c15Node{n(0, "group", -1), del(n(1, "group", 0)), n(2, "variable", 1), n(3, "variable", 0)}},
		{"mirror", []c15Node{n(0, "group", -1), n(1, "group", 0), n(2, "variable", 0), mir(2, 1)}},
		{"moved-top", []c15Node{mov(n(0, "group", -1)), n(1, "variable", 0)}},
		{"moved-child", []c15Node{n(0, "group", -1), mov(n(1, "group", 0)), n(2, "variable", 1)}},
	}
}

// special content placed at one point position
type c15Special struct {
	name string
	p    data.Point
	edge bool
	// liveFirst: the point is first written live (tombstone count 0) and then, in a later write, with its tombstone count
	liveFirst bool
}

var c15Strings = []string{"", "a", " a ", "a: b", "- x", "-", "#c", "'", "\"", "null", "Null", "NULL", "~", "true", "false", "yes", "no", "on", "off", "1e3", "0x1F", "0o17", "1_000", "12", "1.5",
	".inf", "-.inf", ".nan", "2020-01-01", "multi\nline", "trail\n", "\nlead", "tab\t", "\ttab", "a\tb", "a\r\nb", "\r", "é✓😀", "\u0085", " ", "{a}", "[a]", "a, b", "&a", "*a", "!a", "|", ">", "%a", "@a", "`a",
	"? a", ": a", "a #b", "a:b", "a :b", "\\", "\\n", "---", "...", "<<", "=", "y", "N", strings.Repeat("long text ", 30),
	" first\n second", "  indented first\nline", "line\n  indented second", "a\n\nb", "\n\n", "x\n", "a\n b\n  c\n", "- item\n- item", "key: v\nother: w"}

var c15Values = []float64{1, -1.5, 0.1, 1e-4, 1e-7, 5e-324, 1e5, 1e6, 2e6, 1234567.25, 1e20, 1e21, 123456789012345678, math.MaxFloat64, math.Inf(1), math.Inf(-1), 1e-5, 3e8, 1100000}

func c15Specials(full bool) []c15Special {
	var out []c15Special
	strs := c15Strings
	vals := c15Values
	if !full {
		strs = []string{"a", "a: b", "null", "multi\nline", "é✓😀", "- x"}
		vals = []float64{1, -1.5, 1e6, 1234567.25}
	}
	for _, s := range strs {
		out = append(out, c15Special{fmt.Sprintf("text=%q", s), data.Point{Type: "tx", Text: s, Value: 1}, false, false})
		if s != "" {
			out = append(out, c15Special{fmt.Sprintf("key=%q", s), data.Point{Type: "kx", Key: s, Value: 2}, false, false})
		}
	}
	// the node's own description with white space at its ends (the import appends its marker to the top node's description and to nothing else)
	descs := []string{" a ", "x\n"}
	if full {
		descs = []string{" a ", "a ", " a", "x\n", "\nlead", "multi\nline", " ", "a\u00a0", "a\n\n", "\ta"}
	}
	for _, s := range descs {
		out = append(out, c15Special{fmt.Sprintf("description=%q", s), data.Point{Type: data.PointTypeDescription, Text: s}, false, false})
	}
	for _, v := range vals {
		out = append(out, c15Special{fmt.Sprintf("value=%v", v), data.Point{Type: "vx", Value: v}, false, false})
	}
	for _, k := range []string{"", "0", "1", "k"} {
		out = append(out, c15Special{fmt.Sprintf("key=%q+value", k), data.Point{Type: "arr", Key: k, Value: 7}, false, false})
		out = append(out, c15Special{fmt.Sprintf("edge key=%q", k), data.Point{Type: "role", Key: k, Value: 3, Text: "r"}, true, false})
	}
	out = append(out,
		c15Special{"tombstone=1", data.Point{Type: "tb", Value: 4, Text: "gone", Tombstone: 1}, false, false},
		c15Special{"tombstone=2", data.Point{Type: "tb", Value: 4, Text: "back", Tombstone: 2}, false, false},
		c15Special{name: "nodeID->sibling in a removed entry (tombstone=1 after a live write)", p: data.Point{Type: data.PointTypeNodeID, Key: "1", Text: "REF-LAST", Tombstone: 1}, liveFirst: true},
		c15Special{name: "tombstone=1 after a live write", p: data.Point{Type: "tb", Key: "k2", Value: 4, Text: "gone", Tombstone: 1}, liveFirst: true},
		c15Special{name: "edge tombstone=1 after a live write", p: data.Point{Type: "etb", Key: "k2", Value: 4, Text: "x", Tombstone: 1}, edge: true, liveFirst: true},
		c15Special{"edge text", data.Point{Type: "etx", Text: "edge: text", Value: 1.5}, true, false},
		c15Special{"edge zero value", data.Point{Type: "slot", Key: "a", Value: 0}, true, false},
		c15Special{"edge tombstoned point", data.Point{Type: "etb", Value: 4, Text: "x", Tombstone: 1}, true, false},
		c15Special{"edge tombstoned zero point", data.Point{Type: "ez", Tombstone: 1}, true, false},
		c15Special{"zero value point", data.Point{Type: "zv", Key: "b", Value: 0}, false, false},
		c15Special{"nodeID->sibling", data.Point{Type: data.PointTypeNodeID, Text: "REF-LAST"}, false, false},
		c15Special{"nodeID->top", data.Point{Type: data.PointTypeNodeID, Text: "REF-TOP"}, false, false},
		c15Special{"nodeID->outside", data.Point{Type: data.PointTypeNodeID, Text: "outside-id"}, false, false},
		c15Special{"nodeID empty", data.Point{Type: data.PointTypeNodeID, Text: ""}, false, false},
	)
	return out
}

// c15Class returns the known-finding class of a special content, "" if none.
// (defects of the pinned YAML encoder that surface through Export/Import)
func c15YamlClass(p data.Point) string {
	if p.Type == "vx" {
		s := strconv.FormatFloat(p.Value, 'g', -1, 64)
		if strings.Contains(s, "e") && !strings.Contains(s, ".") {
			return "yaml-float-in-exponent-form-without-fraction"
		}
	}
	return ""
}

type c15Read struct {
	id, typ  string
	pts      map[string]data.Point
	epts     map[string]data.Point
	children []*c15Read
}

func c15ReadTree(inst *sh.Inst, parent, id string, seen map[string]bool) (*c15Read, error) {
	ns, err := client.GetNodes(inst.Nc, parent, id, "", false)
	if err != nil {
		return nil, err
	}
	if len(ns) != 1 {
		return nil, fmt.Errorf("node %s under %s: %d live placements", id, parent, len(ns))
	}
	n := ns[0]
	r := &c15Read{id: n.ID, typ: n.Type, pts: map[string]data.Point{}, epts: map[string]data.Point{}}
	for _, p := range n.Points {
		r.pts[p.Type+"\x00"+normKey(p.Key)] = p
	}
	for _, p := range n.EdgePoints {
		if p.Type == data.PointTypeTombstone && p.Value == 0 {
			continue
		}
		r.epts[p.Type+"\x00"+normKey(p.Key)] = p
	}
	if seen[parent+">"+id] {
		return r, nil
	}
	seen[parent+">"+id] = true
	kids, err := client.GetNodes(inst.Nc, id, "all", "", false)
	if err != nil {
		return nil, err
	}
	for _, k := range kids {
		c, err := c15ReadTree(inst, id, k.ID, seen)
		if err != nil {
			return nil, err
		}
		r.children = append(r.children, c)
	}
	sort.Slice(r.children, func(a, b int) bool { return c15Desc(r.children[a]) < c15Desc(r.children[b]) })
	return r, nil
}

func c15Desc(r *c15Read) string {
	return strings.TrimSuffix(r.pts["description\x000"].Text, " (import)")
}

func c15PtEq(a, b data.Point) bool {
	return a.Type == b.Type && normKey(a.Key) == normKey(b.Key) && math.Float64bits(a.Value) == math.Float64bits(b.Value) && a.Text == b.Text && a.Tombstone == b.Tombstone
}

// c15Compare: imported ~ exported under the id map; returns (class, message).
func c15Compare(exp, imp *c15Read, idmap map[string]string, top bool, preserve bool) (string, string) {
	if exp.typ != imp.typ {
		return "node-type", fmt.Sprintf("node %s: type %q imported as %q", c15Desc(exp), exp.typ, imp.typ)
	}
	if preserve && exp.id != imp.id {
		return "id-not-preserved", fmt.Sprintf("node %s: id %s imported as %s with identifier preservation", c15Desc(exp), exp.id, imp.id)
	}
	if !preserve && exp.id == imp.id {
		return "id-not-replaced", fmt.Sprintf("node %s kept its id %s without identifier preservation", c15Desc(exp), exp.id)
	}
	if prev, ok := idmap[exp.id]; ok && prev != imp.id {
		return "id-mapping-inconsistent", fmt.Sprintf("node id %s mapped to both %s and %s", exp.id, prev, imp.id)
	}
	idmap[exp.id] = imp.id
	for k, p := range exp.pts {
		q, ok := imp.pts[k]
		if !ok {
			return "point-missing", fmt.Sprintf("node %s: point %s/%q missing after import", c15Desc(exp), p.Type, p.Key)
		}
		want := p
		if p.Type == data.PointTypeDescription {
			if top {
				want.Text += " (import)"
			}
		}
		if p.Type == data.PointTypeNodeID {
			continue // checked after the id map is complete
		}
		if !c15PtEq(want, q) {
			f := "value"
			switch {
			case want.Text != q.Text:
				f = "text"
			case want.Tombstone != q.Tombstone:
				f = "tombstone"
			}
			if p.Type == data.PointTypeDescription {
				return "import-marker", fmt.Sprintf("node %s (top=%v): description %q imported as %q", c15Desc(exp), top, p.Text, q.Text)
			}
			return "point-" + f + "-differs", fmt.Sprintf("node %s: point %s imported as %s", c15Desc(exp), sh.Canon(want), sh.Canon(q))
		}
	}
	for k, q := range imp.pts {
		if _, ok := exp.pts[k]; !ok {
			return "point-added", fmt.Sprintf("node %s: import added point %s/%q", c15Desc(exp), q.Type, q.Key)
		}
	}
	for k, p := range exp.epts {
		q, ok := imp.epts[k]
		if !ok {
			return "edge-point-missing", fmt.Sprintf("node %s: edge point %s/%q missing after import", c15Desc(exp), p.Type, p.Key)
		}
		if !c15PtEq(p, q) {
			return "edge-point-differs", fmt.Sprintf("node %s: edge point %s imported as %s", c15Desc(exp), sh.Canon(p), sh.Canon(q))
		}
	}
	for k, q := range imp.epts {
		if _, ok := exp.epts[k]; !ok {
			return "edge-point-added", fmt.Sprintf("node %s: import added edge point %s/%q", c15Desc(exp), q.Type, q.Key)
		}
	}
	if len(exp.children) != len(imp.children) {
		var a, b []string
		for _, c := range exp.children {
			a = append(a, c15Desc(c))
		}
		for _, c := range imp.children {
			b = append(b, c15Desc(c))
		}
		return "shape", fmt.Sprintf("node %s: children %v imported as %v", c15Desc(exp), a, b)
	}
	for i := range exp.children {
		if c15Desc(exp.children[i]) != c15Desc(imp.children[i]) {
			return "shape", fmt.Sprintf("node %s: child %s imported as %s", c15Desc(exp), c15Desc(exp.children[i]), c15Desc(imp.children[i]))
		}
		if k, m := c15Compare(exp.children[i], imp.children[i], idmap, false, preserve); k != "" {
			return k, m
		}
	}
	return "", ""
}

func c15Refs(exp, imp *c15Read, idmap, outside map[string]string, preserve bool) (string, string) {
	for k, p := range exp.pts {
		if p.Type != data.PointTypeNodeID {
			continue
		}
		q := imp.pts[k]
		want, inTree := idmap[p.Text]
		switch {
		case preserve || p.Text == "":
			if q.Text != p.Text {
				return "node-id-reference", fmt.Sprintf("node %s: node-id point %q imported as %q", c15Desc(exp), p.Text, q.Text)
			}
		case inTree:
			if q.Text != want {
				return "node-id-reference", fmt.Sprintf("node %s: reference to %s imported as %s, but that node became %s", c15Desc(exp), p.Text, q.Text, want)
			}
		default:
			if prev, ok := outside[p.Text]; ok && prev != q.Text {
				return "node-id-reference", fmt.Sprintf("reference to outside id %s replaced inconsistently (%s, %s)", p.Text, prev, q.Text)
			}
			outside[p.Text] = q.Text
		}
	}
	for i := range exp.children {
		if k, m := c15Refs(exp.children[i], imp.children[i], idmap, outside, preserve); k != "" {
			return k, m
		}
	}
	return "", ""
}

func c15Body(full bool) mc.Body {
	shapes := c15Shapes()
	specials := c15Specials(full)
	allSpecials := c15Specials(true)
	return func(x *mc.X) mc.Outcome {
		// quick: the full content alphabet on one configuration, plus a reduced alphabet on all configurations
		fixed := !full && x.Choose(2, "mode") == 0
		if fixed {
			sp := allSpecials[x.Choose(len(allSpecials), "special")]
			return c15Run(x, sp, shapes[1], 1, 2-x.Choose(2, "target"), false)
		}
		sp := specials[x.Choose(len(specials), "special")]
		shape := shapes[x.Choose(len(shapes), "shape")]
		// position: which (non-mirror, live) node carries the special point
		var posNodes []int
		for i, n := range shape.nodes {
			if n.mirrorOf < 0 {
				posNodes = append(posNodes, i)
			}
		}
		pos := posNodes[x.Choose(len(posNodes), "position")]
		target := x.Choose(4, "target") // 0 same parent, 1 other parent, 2 other instance, 3 below the exported tree's own top node
		preserve := x.Choose(2, "preserve") == 1
		if target == 3 && preserve {
			return mc.Outcome{Trivial: true, Obs: "a copy below itself needs new ids"}
		}
		return c15Run(x, sp, shape, pos, target, preserve)
	}
}

func c15Run(x *mc.X, sp c15Special, shape c15Shape, pos, target int, preserve bool) mc.Outcome {
	{
		var posNodes []int
		for i, n := range shape.nodes {
			if n.mirrorOf < 0 {
				posNodes = append(posNodes, i)
			}
		}
		a, err := sh.New(sh.Opts{})
		if err != nil {
			return mc.Outcome{Violation: "HARNESS: " + err.Error(), Key: "harness"}
		}
		defer a.Close()
		clock := int64(1000)
		tick := func() time.Time { clock++; return time.Unix(0, clock) }
		// build
		last := shape.nodes[len(posNodes)-1].id
		var late *data.Point // the second, tombstoned write of a live-first special
		var lateEdge bool
		var lateNode, lateParent string
		for i, n := range shape.nodes {
			parent := a.RootID
			if n.parent >= 0 {
				parent = shape.nodes[n.parent].id
			}
			if n.mirrorOf >= 0 {
				src := shape.nodes[n.mirrorOf]
				if err := client.SendEdgePoints(a.Nc, src.id, parent, data.Points{{Type: data.PointTypeTombstone, Time: tick()}, {Type: data.PointTypeNodeType, Text: src.typ}}, true); err != nil {
					return mc.Outcome{Violation: "HARNESS: mirror: " + err.Error(), Key: "harness"}
				}
				continue
			}
			pts := data.Points{{Type: data.PointTypeDescription, Text: n.desc, Time: tick()}, {Type: "value", Value: float64(i) + 0.5, Time: tick()}}
			epts := data.Points{{Type: data.PointTypeTombstone, Time: tick()}}
			if i == pos {
				p := sp.p
				p.Time = tick()
				switch p.Text {
				case "REF-LAST":
					p.Text = last
				case "REF-TOP":
					p.Text = shape.nodes[0].id
				}
				if sp.liveFirst {
					second := p
					second.Time = tick()
					late = &second
					lateEdge, lateNode, lateParent = sp.edge, n.id, parent
					p.Tombstone = 0
				}
				if sp.edge {
					epts = append(epts, p)
				} else {
					pts = append(pts, p)
				}
			}
			if n.moved {
				// an older placement under an unrelated group, deleted again (what MoveNode leaves behind)
				if err := client.SendNode(a.Nc, data.NodeEdge{ID: "oldhome", Type: "group", Parent: a.RootID, Points: data.Points{{Type: data.PointTypeDescription, Text: "old home", Time: tick()}}}, ""); err != nil {
					return mc.Outcome{Violation: "HARNESS: build: " + err.Error(), Key: "harness"}
				}
				if err := client.SendEdgePoints(a.Nc, n.id, "oldhome", data.Points{{Type: data.PointTypeTombstone, Time: tick()}, {Type: data.PointTypeNodeType, Text: n.typ}}, true); err != nil {
					return mc.Outcome{Violation: "HARNESS: build (old placement): " + err.Error(), Key: "harness"}
				}
				if err := client.SendEdgePoints(a.Nc, n.id, "oldhome", data.Points{{Type: data.PointTypeTombstone, Value: 1, Time: tick()}}, true); err != nil {
					return mc.Outcome{Violation: "HARNESS: build (old placement): " + err.Error(), Key: "harness"}
				}
			}
			if err := client.SendNode(a.Nc, data.NodeEdge{ID: n.id, Type: n.typ, Parent: parent, Points: pts, EdgePoints: epts}, ""); err != nil {
				return mc.Outcome{Violation: "HARNESS: build: " + err.Error(), Key: "harness"}
			}
			x.Step(1)
		}
		if late != nil {
			var err error
			if lateEdge {
				err = client.SendEdgePoints(a.Nc, lateNode, lateParent, data.Points{*late}, true)
			} else {
				err = client.SendNodePoints(a.Nc, lateNode, data.Points{*late}, true)
			}
			if err != nil {
				return mc.Outcome{Violation: "HARNESS: second write of the special point: " + err.Error(), Key: "harness"}
			}
		}
		for _, n := range shape.nodes {
			if n.deleted {
				parent := shape.nodes[n.parent].id
				if err := client.SendEdgePoints(a.Nc, n.id, parent, data.Points{{Type: data.PointTypeTombstone, Value: 1, Time: tick()}}, true); err != nil {
					return mc.Outcome{Violation: "HARNESS: delete: " + err.Error(), Key: "harness"}
				}
			}
		}
		top := shape.nodes[0]
		x.Logf("shape=%s special=%s at node %d target=%d preserve=%v", shape.name, sp.name, pos, target, preserve)
		known := c15YamlClass(sp.p)
		fail := func(class, msg string) mc.Outcome {
			key := "export-import/" + class
			// failures of the special content itself (a point lost / changed / the YAML not readable) are classified by
			// that content; failures of the tree structure, of ids or of references never are
			content := strings.HasPrefix(class, "point-") || strings.HasPrefix(class, "edge-point-") || class == "import-error" || class == "export-error"
			if content && known != "" {
				key = known
			} else if content && (strings.HasPrefix(sp.name, "text=") || strings.HasPrefix(sp.name, "key=") && sp.p.Type == "kx") {
				key = "yaml-string/" + sp.name[strings.Index(sp.name, "=")+1:]
			}
			return mc.Outcome{Violation: fmt.Sprintf("tree %s with %s at node n%d, import target %s, preserveIDs=%v: %s", shape.name, sp.name, pos, []string{"same parent", "other parent", "other instance", "below its own top node"}[target], preserve, msg), Key: key}
		}
		y, err := client.ExportNodes(a.Nc, top.id)
		x.Step(1)
		if err != nil {
			return fail("export-error", "ExportNodes failed: "+err.Error())
		}
		exp, err := c15ReadTree(a, a.RootID, top.id, map[string]bool{})
		if err != nil {
			return mc.Outcome{Violation: "HARNESS: read exported: " + err.Error(), Key: "harness"}
		}
		// import
		dst := a
		parent := a.RootID
		switch target {
		case 1:
			if err := client.SendNode(a.Nc, data.NodeEdge{ID: "otherparent", Type: "group", Parent: a.RootID, Points: data.Points{{Type: data.PointTypeDescription, Text: "other", Time: tick()}}}, ""); err != nil {
				return mc.Outcome{Violation: "HARNESS: " + err.Error(), Key: "harness"}
			}
			parent = "otherparent"
		case 3:
			// the import parent's id occurs as a node id in the file: it must be replaced like every other id
			parent = top.id
		case 2:
			b, err := sh.New(sh.Opts{})
			if err != nil {
				return mc.Outcome{Violation: "HARNESS: " + err.Error(), Key: "harness"}
			}
			defer b.Close()
			dst = b
			parent = b.RootID
		}
		if err := client.ImportNodes(dst.Nc, parent, y, "importer", preserve); err != nil {
			return fail("import-error", "ImportNodes failed: "+firstLineOf(err.Error())+"\nexport was:\n"+string(y))
		}
		x.Step(1)
		// locate the imported top node under parent
		kids, err := client.GetNodes(dst.Nc, parent, "all", "", false)
		if err != nil {
			return mc.Outcome{Violation: "read after import failed: " + err.Error(), Key: "export-import/read-failed"}
		}
		var impTop []string
		wantDesc := top.desc + " (import)"
		if d, ok := exp.pts["description\x000"]; ok {
			wantDesc = d.Text + " (import)" // (the special content may be the top node's description itself)
		}
		for _, k := range kids {
			d, _ := k.Points.Find(data.PointTypeDescription, "")
			if d.Text == wantDesc {
				impTop = append(impTop, k.ID)
			}
		}
		if len(impTop) != 1 {
			var have []string
			for _, k := range kids {
				d, _ := k.Points.Find(data.PointTypeDescription, "")
				have = append(have, fmt.Sprintf("%q", d.Text))
			}
			return fail("top-node", fmt.Sprintf("expected exactly one child of the import parent described %q (the exported top node's description plus the marker), found %d; children are described %v", wantDesc, len(impTop), have))
		}
		imp, err := c15ReadTree(dst, parent, impTop[0], map[string]bool{})
		if err != nil {
			return fail("shape", "imported tree cannot be read: "+err.Error())
		}
		idmap := map[string]string{}
		if k, m := c15Compare(exp, imp, idmap, true, preserve); k != "" {
			return fail(k, m)
		}
		if k, m := c15Refs(exp, imp, idmap, map[string]string{}, preserve); k != "" {
			return fail(k, m)
		}
		return mc.Outcome{Obs: shape.name + "|" + sp.name}
	}
}

func firstLineOf(s string) string {
	if i := strings.IndexByte(s, '\n'); i >= 0 {
		return s[:i]
	}
	return s
}

func checkC15(r *mc.Report, thorough bool) {
	name := "export-import-quick"
	if thorough {
		name = "export-import-full"
	}
	specials := c15Specials(thorough)
	r.Explore(mc.Config{Name: name, SplitDepth: 2, StopAfterViolations: 60,
		Rule: fmt.Sprintf("%d special point contents (YAML-significant / Unicode / control strings as text and as key, values incl. exponent forms and infinities, keys \"\"/\"0\"/array/map, tombstoned points, edge points (with text, zero-valued, tombstoned), node-id references to sibling / top / outside / empty) x 10 tree shapes (depth <=3, fan-out <=2, deleted child, deleted subtree, mirrored child, moved top node, moved child: oldest edge tombstoned) x every node position x import target {same parent, other parent, other instance, below the exported tree's own top node} x preserveIDs {no, yes}; imported subtree compared with the exported one under one consistent id bijection", len(specials))},
		c15Body(thorough))
	sh.CleanupTemplate()
	r.Assume("compared per point: type, normalised key, value bit-wise, text, tombstone (time, origin and data are not part of the statement); tombstone=0 edge points and the nodeType point are implementation noise and ignored")
	r.Assume("known findings are keyed by the exact string (yaml-string/...) or by the class 'float whose shortest form is d e+-x' of the pinned YAML encoder")
}

func init() {
	registerSharded("C15", "model_checking", checkC15)
	bodies["C15/export-import-quick"] = c15Body(false)
	bodies["C15/export-import-full"] = c15Body(true)
}
