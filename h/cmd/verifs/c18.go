package main

import (
	"encoding/hex"
	"fmt"
	"sort"
	"time"

	"github.com/simpleiot/simpleiot/modbus"
	"verif/h/mc"
)

// C18: the Modbus server answers every request safely and per specification.
// Seam: PDU.ProcessRequest on the real modbus.Regs register file.

type regMapSpec struct {
	Name  string
	Addrs []uint16
	Init  uint16
	// validator: writes of odd values to these registers are rejected
	OddRejected []uint16
	// Ranges: the map is built by these AddReg(address, count) calls, in this order (they may overlap, as the
	// register blocks of 16- and 32-bit IO points of one device do); Addrs is their union
	Ranges [][2]int
}

func (s regMapSpec) build() *modbus.Regs {
	r := &modbus.Regs{}
	for _, rg := range s.Ranges {
		r.AddReg(rg[0], rg[1])
	}
	for _, a := range s.Addrs {
		if len(s.Ranges) == 0 {
			r.AddReg(int(a), 1)
		}
		if s.Init != 0 {
			_ = r.WriteReg(int(a), s.Init)
		}
	}
	for _, a := range s.OddRejected {
		_ = r.AddRegValueValidator(int(a), func(v uint16) bool { return v%2 == 0 })
	}
	return r
}

func (s regMapSpec) ref() *refRegs {
	m := &refRegs{v: map[int]uint16{}, odd: map[int]bool{}}
	for _, a := range s.Addrs {
		m.v[int(a)] = s.Init
	}
	for _, a := range s.OddRejected {
		m.odd[int(a)] = true
	}
	return m
}

func (s regMapSpec) snapshot(r *modbus.Regs) string {
	out := ""
	for _, a := range s.Addrs {
		v, err := r.ReadReg(int(a))
		out += fmt.Sprintf("%d=%04x,%v;", a, v, err != nil)
	}
	return out
}

func (m *refRegs) snapshot(s regMapSpec) string {
	out := ""
	for _, a := range s.Addrs {
		out += fmt.Sprintf("%d=%04x,false;", a, m.v[int(a)])
	}
	return out
}

// refRegs: reference register file (one address space, coils aliased onto
// registers 16 per register, as modbus/reg.go documents).
type refRegs struct {
	v   map[int]uint16
	odd map[int]bool
}

func (m *refRegs) clone() *refRegs {
	c := &refRegs{v: map[int]uint16{}, odd: m.odd}
	for k, v := range m.v {
		c.v[k] = v
	}
	return c
}

const (
	kNormal = iota
	kException
	kShort     // request shorter than the function's fixed header: Go error acceptable
	kUndefined // malformed beyond what the statement classifies (extra bytes, byte-count field mismatch): only safety is checked
)

type refResult struct {
	kind  int
	fc    byte
	data  []byte // normal response data
	codes []byte // acceptable exception codes
	after *refRegs
	// for exceptions: must registers stay unchanged? (reads and single writes)
	mustKeep bool
}

func u16(b []byte) int { return int(b[0])<<8 | int(b[1]) }

// refProcess: the Modbus application protocol V1.1b3 tables, written from the spec.
func refProcess(fc byte, d []byte, m *refRegs) refResult {
	exc := func(keep bool, codes ...byte) refResult {
		return refResult{kind: kException, fc: fc | 0x80, codes: codes, after: m, mustKeep: keep}
	}
	switch fc {
	case 1, 2, 3, 4, 5, 6:
		if len(d) < 4 {
			return refResult{kind: kShort, after: m, mustKeep: true}
		}
		if len(d) > 4 {
			return refResult{kind: kUndefined, after: m, mustKeep: fc <= 4}
		}
	case 15, 16:
		// the shortest well-formed request carries one payload unit (1 byte / 1 register)
		if (fc == 15 && len(d) < 6) || (fc == 16 && len(d) < 7) {
			return refResult{kind: kShort, after: m, mustKeep: true}
		}
	default:
		// unsupported function: illegal function (a Go error is tolerated when the
		// implementation knows a longer fixed header for the code)
		return refResult{kind: kException, fc: fc | 0x80, codes: []byte{1}, after: m, mustKeep: true}
	}
	addr, q := u16(d[0:2]), u16(d[2:4])
	// when the quantity is out of limits the spec answers 3; if some addressed
	// item is also missing, 2 describes the request equally well
	qcodes := func(bits bool) []byte {
		for i := 0; i < q; i++ {
			n := addr + i
			if bits {
				n /= 16
			}
			if _, ok := m.v[n]; !ok || addr+i > 0xffff {
				return []byte{3, 2}
			}
		}
		return []byte{3}
	}
	switch fc {
	case 1, 2:
		if q < 1 || q > 2000 {
			return exc(true, qcodes(true)...)
		}
		out := make([]byte, 1+(q+7)/8)
		out[0] = byte((q + 7) / 8)
		for i := 0; i < q; i++ {
			n := addr + i
			v, ok := m.v[n/16]
			if !ok || n > 0xffff {
				return exc(true, 2)
			}
			if v&(1<<(n%16)) != 0 {
				out[1+i/8] |= 1 << (i % 8)
			}
		}
		return refResult{kind: kNormal, fc: fc, data: out, after: m}
	case 3, 4:
		if q < 1 || q > 125 {
			return exc(true, qcodes(false)...)
		}
		out := make([]byte, 1+2*q)
		out[0] = byte(2 * q)
		for i := 0; i < q; i++ {
			v, ok := m.v[addr+i]
			if !ok || addr+i > 0xffff {
				return exc(true, 2)
			}
			out[1+2*i], out[2+2*i] = byte(v>>8), byte(v)
		}
		return refResult{kind: kNormal, fc: fc, data: out, after: m}
	case 5:
		if q != 0 && q != 0xff00 {
			return exc(true, 3)
		}
		v, ok := m.v[addr/16]
		if !ok {
			return exc(true, 2)
		}
		nv := v &^ (1 << (addr % 16))
		if q == 0xff00 {
			nv |= 1 << (addr % 16)
		}
		if m.odd[addr/16] && nv%2 == 1 {
			return exc(true, 3)
		}
		a := m.clone()
		a.v[addr/16] = nv
		return refResult{kind: kNormal, fc: fc, data: append([]byte{}, d[:4]...), after: a}
	case 6:
		if _, ok := m.v[addr]; !ok {
			return exc(true, 2)
		}
		if m.odd[addr] && q%2 == 1 {
			return exc(true, 3)
		}
		a := m.clone()
		a.v[addr] = uint16(q)
		return refResult{kind: kNormal, fc: fc, data: append([]byte{}, d[:4]...), after: a}
	case 15:
		if q < 1 || q > 1968 {
			return exc(false, qcodes(true)...)
		}
		n := (q + 7) / 8
		if len(d) != 5+n {
			// quantity and payload length disagree: illegal value, or (shorter than announced) a framing problem
			return refResult{kind: kException, fc: fc | 0x80, codes: []byte{3}, after: m, mustKeep: false}
		}
		if int(d[4]) != n {
			return refResult{kind: kUndefined, after: m}
		}
		a := m.clone()
		for i := 0; i < q; i++ {
			c := addr + i
			v, ok := a.v[c/16]
			if !ok || c > 0xffff {
				return exc(false, 2)
			}
			if (d[5+i/8]>>(i%8))&1 == 1 {
				v |= 1 << (c % 16)
			} else {
				v &^= 1 << (c % 16)
			}
			if a.odd[c/16] && v%2 == 1 {
				return exc(false, 3)
			}
			a.v[c/16] = v
		}
		return refResult{kind: kNormal, fc: fc, data: append([]byte{}, d[:4]...), after: a}
	case 16:
		if q < 1 || q > 123 {
			return exc(false, qcodes(false)...)
		}
		if len(d) != 5+2*q {
			return refResult{kind: kException, fc: fc | 0x80, codes: []byte{3}, after: m, mustKeep: false}
		}
		if int(d[4]) != 2*q {
			return refResult{kind: kUndefined, after: m}
		}
		a := m.clone()
		for i := 0; i < q; i++ {
			if _, ok := a.v[addr+i]; !ok || addr+i > 0xffff {
				return exc(false, 2)
			}
			v := uint16(u16(d[5+2*i:]))
			if a.odd[addr+i] && v%2 == 1 {
				return exc(false, 3)
			}
			a.v[addr+i] = v
		}
		return refResult{kind: kNormal, fc: fc, data: append([]byte{}, d[:4]...), after: a}
	}
	panic("unreachable")
}

type c18Case struct {
	Map  string `json:"register_map"`
	FC   byte   `json:"function_code"`
	Data string `json:"data_hex"`
}

var c18Maps = []regMapSpec{
	{Name: "empty"},
	{Name: "one@5", Addrs: []uint16{5}, Init: 0xa5c3},
	{Name: "two@0,2", Addrs: []uint16{0, 2}, Init: 0xffff},
	{Name: "dense0-255/zeros", Addrs: seqU16(0, 256)},
	{Name: "dense0-255/ones", Addrs: seqU16(0, 256), Init: 0xffff},
	{Name: "dense0-15/validators", Addrs: seqU16(0, 16), Init: 0x1234, OddRejected: []uint16{1, 3}},
	{Name: "top+bottom", Addrs: []uint16{0xffff, 0, 1, 0x0fff, 0xfff}, Init: 0x8001},
	{Name: "validators/current-content-invalid", Addrs: seqU16(0, 8), Init: 0x1235, OddRejected: []uint16{1, 3}},
	{Name: "overlapping-ranges", Ranges: [][2]int{{10, 1}, {10, 2}, {20, 2}, {21, 2}, {30, 4}, {28, 4}, {40, 3}, {40, 3}}, Addrs: []uint16{10, 11, 20, 21, 22, 28, 29, 30, 31, 32, 33, 40, 41, 42}, Init: 0x4321},
}

func seqU16(a, n int) []uint16 {
	var out []uint16
	for i := 0; i < n; i++ {
		out = append(out, uint16(a+i))
	}
	return out
}

func c18Class(fc byte, d []byte) string {
	c := fmt.Sprintf("fc%d", fc)
	if fc > 24 {
		c = "fc-other"
	}
	return c
}

// c18Eval runs one request on a fresh real register file and compares.
func c18Eval(spec regMapSpec, fc byte, d []byte) (key, msg string) {
	regs := spec.build()
	ref := spec.ref()
	before := spec.snapshot(regs)
	req := modbus.PDU{FunctionCode: modbus.FunctionCode(fc), Data: append([]byte{}, d...)}
	var resp modbus.PDU
	var err error
	done := make(chan string, 1)
	go func() {
		done <- mc.Safely(func() { _, resp, err = req.ProcessRequest(regs) })
	}()
	var pan string
	select {
	case pan = <-done:
	case <-time.After(60 * time.Second):
		return "hang/" + c18Class(fc, d), fmt.Sprintf("ProcessRequest fc=%d data=%x on map %s did not return within 60 s", fc, d, spec.Name)
	}
	cls := c18Class(fc, d)
	if pan != "" {
		return "panic/" + cls, fmt.Sprintf("ProcessRequest fc=%d data=%x on map %s panicked: %s", fc, d, spec.Name, pan)
	}
	want := refProcess(fc, d, ref)
	after := spec.snapshot(regs)
	isExc := err == nil && byte(resp.FunctionCode) == fc|0x80 && (fc < 0x80 || len(resp.Data) == 1)
	describe := func() string {
		if err != nil {
			return "Go error " + err.Error()
		}
		return fmt.Sprintf("response fc=%#02x data=%x", byte(resp.FunctionCode), resp.Data)
	}
	if want.mustKeep && (err != nil || isExc) && after != before {
		return "exception-changed-registers/" + cls, fmt.Sprintf("fc=%d data=%x on %s: %s, but registers changed: %s -> %s", fc, d, spec.Name, describe(), before, after)
	}
	switch want.kind {
	case kShort:
		if err == nil && !isExc {
			return "short-request-answered/" + cls, fmt.Sprintf("fc=%d data=%x (shorter than the fixed header): %s", fc, d, describe())
		}
	case kUndefined:
		// only safety
		if err == nil && !isExc && byte(resp.FunctionCode) != fc {
			return "bad-response-fc/" + cls, fmt.Sprintf("fc=%d data=%x: %s", fc, d, describe())
		}
	case kException:
		if err != nil {
			if fc != 1 && fc != 2 && fc != 3 && fc != 4 && fc != 5 && fc != 6 && fc != 15 && fc != 16 {
				return "", "" // unsupported function with a short body: Go error tolerated
			}
			return "error-instead-of-exception/" + cls, fmt.Sprintf("fc=%d data=%x on %s: spec demands exception %v, got %s", fc, d, spec.Name, want.codes, describe())
		}
		if !isExc {
			return "normal-response-to-illegal-request/" + cls, fmt.Sprintf("fc=%d data=%x on %s: spec demands exception %v, got %s", fc, d, spec.Name, want.codes, describe())
		}
		if len(resp.Data) != 1 {
			return "malformed-exception/" + cls, fmt.Sprintf("fc=%d data=%x: %s", fc, d, describe())
		}
		ok := false
		for _, c := range want.codes {
			if resp.Data[0] == c {
				ok = true
			}
		}
		// when both an address and a value problem exist either code is fine: the reference reports the first
		// it meets in spec order; accept 2 and 3 interchangeably only if the reference says 2 or 3
		if !ok && (resp.Data[0] == 2 || resp.Data[0] == 3) && (want.codes[0] == 2 || want.codes[0] == 3) && (fc == 15 || fc == 16 || fc == 5) {
			ok = true
		}
		if !ok {
			return "wrong-exception-code/" + cls, fmt.Sprintf("fc=%d data=%x on %s: spec demands exception %v, got %s", fc, d, spec.Name, want.codes, describe())
		}
	case kNormal:
		if err != nil || isExc {
			return "legal-request-refused/" + cls, fmt.Sprintf("fc=%d data=%x on %s is legal (want fc=%d data=%x), got %s", fc, d, spec.Name, want.fc, want.data, describe())
		}
		if byte(resp.FunctionCode) != want.fc || hex.EncodeToString(resp.Data) != hex.EncodeToString(want.data) {
			return "wrong-normal-response/" + cls, fmt.Sprintf("fc=%d data=%x on %s: want fc=%d data=%x, got %s", fc, d, spec.Name, want.fc, want.data, describe())
		}
		if wa := want.after.snapshot(spec); wa != after {
			return "wrong-registers-after-write/" + cls, fmt.Sprintf("fc=%d data=%x on %s: registers want %s got %s", fc, d, spec.Name, wa, after)
		}
	}
	return "", ""
}

func be(vs ...int) []byte {
	var out []byte
	for _, v := range vs {
		out = append(out, byte(v>>8), byte(v))
	}
	return out
}

func checkC18(r *mc.Report, thorough bool) {
	run := func(p *mc.Part, spec regMapSpec, fc byte, d []byte) {
		p.Case(true)
		p.Step(1)
		if key, msg := c18Eval(spec, fc, d); key != "" {
			p.Violation(key, msg, c18Case{spec.Name, fc, hex.EncodeToString(d)})
		}
	}
	// ---- raw: all function codes x data over an 8-byte alphabet
	alpha := []byte{0x00, 0x01, 0x02, 0x7d, 0x7e, 0x7f, 0x80, 0xff}
	maxLen := 4
	if thorough {
		maxLen = 6
	}
	var datas [][]byte
	var rec func(cur []byte)
	rec = func(cur []byte) {
		datas = append(datas, append([]byte{}, cur...))
		if len(cur) == maxLen {
			return
		}
		for _, a := range alpha {
			rec(append(cur, a))
		}
	}
	rec(nil)
	rawMaps := []regMapSpec{c18Maps[0], c18Maps[2], c18Maps[5], c18Maps[6]}
	p := r.Part("raw-requests", fmt.Sprintf("all 256 function codes x all data strings of length 0..%d over {00,01,02,7d,7e,7f,80,ff} (%d strings; lengths above 5 only for the 8 implemented codes) x %d register maps", maxLen, len(datas), len(rawMaps)))
	mc.ParallelFor(256, func(fc int) {
		impl := fc == 1 || fc == 2 || fc == 3 || fc == 4 || fc == 5 || fc == 6 || fc == 15 || fc == 16
		for _, d := range datas {
			if len(d) > 5 && !impl {
				continue
			}
			for _, spec := range rawMaps {
				run(p, spec, byte(fc), d)
			}
		}
	})
	p.Done()

	// ---- structured
	addrs := []int{0, 1, 2, 4, 5, 15, 16, 17, 31, 32, 255, 256, 0x7ff, 0xfff, 0xfff0, 0xfffe, 0xffff}
	counts := []int{0, 1, 2, 3, 7, 8, 9, 15, 16, 17, 124, 125, 126, 127, 128, 255, 256, 1999, 2000, 2001, 2040, 2041, 2048, 4095, 4096, 4097, 32767, 32768, 65535}
	type reqT struct {
		fc byte
		d  []byte
	}
	var reqs []reqT
	for _, fc := range []byte{1, 2, 3, 4} {
		for _, a := range addrs {
			for _, c := range counts {
				reqs = append(reqs, reqT{fc, be(a, c)})
			}
		}
	}
	for _, a := range addrs {
		for _, v := range []int{0, 0xff00, 1, 0xffff, 0x00ff, 0xff01} {
			reqs = append(reqs, reqT{5, be(a, v)})
		}
		for _, v := range []int{0, 1, 2, 3, 0x8000, 0xffff} {
			reqs = append(reqs, reqT{6, be(a, v)})
		}
	}
	pats := []byte{0x00, 0xff, 0xaa, 0x01}
	for _, a := range addrs {
		for _, q := range []int{0, 1, 7, 8, 9, 16, 17, 32, 33, 1967, 1968, 1969, 2000, 4096} {
			n := (q + 7) / 8
			for _, ln := range []int{n, n - 1, n + 1} {
				if ln < 0 {
					continue
				}
				for _, pat := range pats {
					for _, bc := range []int{n, n + 1} {
						d := append(be(a, q), byte(bc))
						for i := 0; i < ln; i++ {
							d = append(d, pat)
						}
						reqs = append(reqs, reqT{15, d})
					}
				}
			}
		}
		for _, q := range []int{0, 1, 2, 3, 16, 122, 123, 124, 125, 127, 128} {
			for _, ln := range []int{2 * q, 2*q - 1, 2*q + 1, 2*q + 2} {
				if ln < 0 {
					continue
				}
				for _, pat := range pats {
					for _, bc := range []int{2 * q, 2*q + 1} {
						d := append(be(a, q), byte(bc))
						for i := 0; i < ln; i++ {
							d = append(d, pat)
						}
						reqs = append(reqs, reqT{16, d})
					}
				}
			}
		}
	}
	p = r.Part("structured-requests", fmt.Sprintf("%d structured requests (FC1-4: %d addresses x %d quantities around every protocol limit; FC5/6 value alphabets; FC15/16: quantity limits x payload length right/short/long x byte-count field right/wrong x 4 payload patterns) x %d register maps (empty, sparse, dense, all bits set, validators, top of address space)", len(reqs), len(addrs), len(counts), len(c18Maps)))
	mc.ParallelFor(len(reqs), func(i int) {
		for _, spec := range c18Maps {
			run(p, spec, reqs[i].fc, reqs[i].d)
		}
	})
	p.Done()
	r.AddSample(map[string]any{"part": "structured-requests", "case": c18Case{"dense0-255/ones", 1, "000007f9"}})

	// ---- sequences: writes followed by reads (state carried over), on the validators map
	p = r.Part("write-then-read", "all ordered pairs (write request, read request) from the structured legal/illegal writes on small addresses, executed in sequence on one register file; the read after the write must report the reference content")
	var writes, reads []reqT
	for _, q := range reqs {
		a := u16(q.d[0:2])
		if a > 17 {
			continue
		}
		switch q.fc {
		case 5, 6:
			writes = append(writes, q)
		case 15, 16:
			if u16(q.d[2:4]) <= 33 {
				writes = append(writes, q)
			}
		case 1, 3:
			if c := u16(q.d[2:4]); c >= 1 && c <= 17 {
				reads = append(reads, q)
			}
		}
	}
	spec := c18Maps[5]
	mc.ParallelFor(len(writes), func(wi int) {
		w := writes[wi]
		for _, rd := range reads {
			p.Case(true)
			p.Step(2)
			regs := spec.build()
			ref := spec.ref()
			wreq := modbus.PDU{FunctionCode: modbus.FunctionCode(w.fc), Data: append([]byte{}, w.d...)}
			var resp modbus.PDU
			var err error
			if pan := mc.Safely(func() {
				_, _, _ = wreq.ProcessRequest(regs)
				rreq := modbus.PDU{FunctionCode: modbus.FunctionCode(rd.fc), Data: append([]byte{}, rd.d...)}
				_, resp, err = rreq.ProcessRequest(regs)
			}); pan != "" {
				p.Violation("panic/sequence", fmt.Sprintf("write fc=%d %x then read fc=%d %x panicked: %s", w.fc, w.d, rd.fc, rd.d, pan), nil)
				continue
			}
			ww := refProcess(w.fc, w.d, ref)
			if ww.kind != kNormal {
				if ww.kind == kException && !ww.mustKeep || ww.kind == kUndefined {
					continue // partial effects of a refused multi-write are not constrained
				}
			}
			wr := refProcess(rd.fc, rd.d, ww.after)
			if wr.kind == kNormal {
				if err != nil || byte(resp.FunctionCode) != wr.fc || hex.EncodeToString(resp.Data) != hex.EncodeToString(wr.data) {
					p.Violation("read-after-write/"+c18Class(w.fc, nil), fmt.Sprintf("after write fc=%d %x, read fc=%d %x: want %x got fc=%#x %x err=%v", w.fc, w.d, rd.fc, rd.d, wr.data, byte(resp.FunctionCode), resp.Data, err), nil)
				}
			}
		}
	})
	p.Done()
	c18Frames(r, thorough)
	_ = sort.Ints
	r.Assume("reference = Modbus Application Protocol V1.1b3 request/response tables and quantity limits (2000 bits, 125 registers, 1968/123 for multi-writes); addresses beyond 0xffff are illegal")
	r.Assume("requests with trailing extra bytes or a wrong byte-count field are only checked for safety (no crash, well-formed answer)")
}

func init() {
	register("C18", "exploration", checkC18)
	rp := func(v *mc.Violation) string {
		c := reinput[c18Case](v)
		d, _ := hex.DecodeString(c.Data)
		for _, s := range c18Maps {
			if s.Name == c.Map {
				_, msg := c18Eval(s, c.FC, d)
				return msg
			}
		}
		return "HARNESS-ERROR: unknown map"
	}
	replayers["C18/raw-requests"] = rp
	replayers["C18/structured-requests"] = rp
	replayers["C18/server-frames"] = func(v *mc.Violation) string {
		c := reinput[c18Frame](v)
		fr, _ := hex.DecodeString(c.Frame)
		// safety only (the expected PDU of a well-formed frame is not part of the recorded input)
		_, msg := c18FrameEval(c.Transport, fr, false, 0, 0, nil)
		return msg
	}
}

type c18Frame struct {
	Transport string `json:"transport"`
	Frame     string `json:"frame"`
}

// c18FrameEval performs what Server.Listen does with one received packet (transport.Decode, unit check,
// ProcessRequest, transport.Encode) and returns a violation key/message ("" = fine).
// wantFC/wantData: if wantOK, the frame is well formed and must decode to exactly this PDU for unit wantID.
func c18FrameEval(transport string, frame []byte, wantOK bool, wantID byte, wantFC byte, wantData []byte) (string, string) {
	var tr modbus.Transport
	if transport == "tcp" {
		tr = modbus.NewTCP(nil, time.Second, modbus.TransportServer)
	} else {
		tr = modbus.NewRTU(nil)
	}
	regs := c18Maps[5].build()
	var id byte
	var req modbus.PDU
	var derr error
	stage := "Decode"
	pan := mc.Safely(func() {
		id, req, derr = tr.Decode(append([]byte{}, frame...))
		if derr != nil || id != 1 {
			return
		}
		stage = "ProcessRequest"
		_, resp, err := req.ProcessRequest(regs)
		if err != nil {
			return
		}
		stage = "Encode"
		_, _ = tr.Encode(1, resp)
	})
	if pan != "" {
		return "panic/frame/" + transport + "/" + stage, fmt.Sprintf("%s server: %s panicked on the %d-byte packet %x: %s (Server.Listen has no recover: the process dies)", transport, stage, len(frame), frame, pan)
	}
	if wantOK {
		if derr != nil {
			return "well-formed-frame-rejected/" + transport, fmt.Sprintf("%s: well-formed packet %x rejected: %v", transport, frame, derr)
		}
		if id != wantID || byte(req.FunctionCode) != wantFC || hex.EncodeToString(req.Data) != hex.EncodeToString(wantData) {
			return "frame-decoded-wrongly/" + transport, fmt.Sprintf("%s: packet %x decoded as unit %d fc %#x data %x, sent unit %d fc %#x data %x", transport, frame, id, byte(req.FunctionCode), req.Data, wantID, wantFC, wantData)
		}
	}
	return "", ""
}

// c18Frames: the framing layer under the server (what Server.Listen does per packet), for arbitrary bytes.
func c18Frames(r *mc.Report, thorough bool) {
	p := r.Part("server-frames", "what Server.Listen does with one received packet (transport Decode, unit check, ProcessRequest, Encode), TCP and RTU: every byte string of length 0..2 (thorough 0..3); for a set of requests every combination of MBAP length field {0,1,2,n-1,n,n+1,0xffff} x unit {1,2,0} x protocol id {0,1} x every truncation x trailing bytes {none, one byte, a second frame}; RTU frames with correct / byte-swapped / zero CRC, every truncation with and without a recomputed CRC: never a panic, and a well-formed frame decodes to exactly the unit, function code and data sent")
	run := func(transport string, frame []byte, wantOK bool, id, fc byte, data []byte) {
		p.Case(true)
		p.Step(1)
		if k, m := c18FrameEval(transport, frame, wantOK, id, fc, data); k != "" {
			p.Violation(k, m, c18Frame{transport, hex.EncodeToString(frame)})
		}
	}
	// all short strings
	maxShort := 2
	if thorough {
		maxShort = 3
	}
	var rec func(cur []byte)
	rec = func(cur []byte) {
		for _, t := range []string{"tcp", "rtu"} {
			run(t, cur, false, 0, 0, nil)
		}
		if t := len(cur); t >= 1 && t <= 3 {
			// RTU: the same bytes followed by their correct CRC
			c := modbus.RtuCrc(cur)
			run("rtu", append(append([]byte{}, cur...), byte(c>>8), byte(c)), false, 0, 0, nil)
		}
		if len(cur) == maxShort {
			return
		}
		for b := 0; b < 256; b++ {
			rec(append(append([]byte{}, cur...), byte(b)))
		}
	}
	rec(nil)
	type rq struct {
		fc byte
		d  []byte
	}
	reqs := []rq{{3, be(0, 1)}, {3, be(0, 125)}, {4, be(8, 2)}, {1, be(0, 9)}, {2, be(16, 1)}, {5, be(1, 0xff00)}, {6, be(2, 77)},
		{15, append(be(0, 9, 0), 2, 0xff, 1)}, {16, append(be(0, 2), 4, 0, 1, 0, 2)}, {0x2b, []byte{0x0e, 1, 0}}, {0, nil}, {3, nil}, {3, be(0)}, {0x83, []byte{2}}, {16, append(be(0, 123), 246)}}
	for _, q := range reqs {
		n := len(q.d) + 2
		for _, unit := range []byte{1, 2, 0} {
			// ---- TCP
			for _, proto := range []int{0, 1} {
				for _, lf := range []int{0, 1, 2, n - 1, n, n + 1, 0xffff} {
					if lf < 0 {
						continue
					}
					fr := append(be(0x1234, proto, lf), unit, q.fc)
					fr = append(fr, q.d...)
					for cut := 0; cut <= len(fr); cut++ {
						wf := cut == len(fr) && lf == n && proto == 0 && len(fr) >= 9
						run("tcp", fr[:cut], wf, unit, q.fc, q.d)
					}
					run("tcp", append(append([]byte{}, fr...), 0x55), false, 0, 0, nil)
					run("tcp", append(append([]byte{}, fr...), fr...), false, 0, 0, nil)
				}
			}
			// ---- RTU
			body := append([]byte{unit, q.fc}, q.d...)
			c := modbus.RtuCrc(body)
			good := append(append([]byte{}, body...), byte(c>>8), byte(c))
			run("rtu", good, len(good) >= 4, unit, q.fc, q.d)
			run("rtu", append(append([]byte{}, body...), byte(c), byte(c>>8)), false, 0, 0, nil)
			run("rtu", append(append([]byte{}, body...), 0, 0), false, 0, 0, nil)
			run("rtu", append(append([]byte{}, good...), 0x55), false, 0, 0, nil)
			for cut := 0; cut < len(good); cut++ {
				run("rtu", good[:cut], false, 0, 0, nil)
				if cut >= 1 {
					cc := modbus.RtuCrc(good[:cut])
					run("rtu", append(append([]byte{}, good[:cut]...), byte(cc>>8), byte(cc)), false, 0, 0, nil)
				}
			}
		}
	}
	p.Done()
}
