package main

import (
	"encoding/base64"
	"path/filepath"
	"encoding/json"
	"fmt"
	"net/http"
	"net/http/httptest"
	"net/url"
	"os"
	"sort"
	"strings"
	"sync"
	"time"

	"github.com/golang-jwt/jwt/v4"
	"github.com/simpleiot/simpleiot/api"
	"github.com/simpleiot/simpleiot/client"
	"github.com/simpleiot/simpleiot/data"
	"verif/h/mc"
	"verif/h/sh"
)

// C09: no node access without valid credentials; valid users can log in.

const c09Token = "s3cret-Token"

type c09Hdr struct {
	name  string
	value string
	set   bool
	valid bool
}

func c09Headers(inst *sh.Inst) []c09Hdr {
	auth := inst.Store.GetAuthorizer()
	good, _ := auth.NewToken("someuser")
	otherKey, _ := api.NewKey([]byte("another-key-another-key"))
	foreign, _ := otherKey.NewToken("someuser")
	// tokens crafted with the INSTANCE key are only obtainable through the authorizer; for algorithm
	// confusion we sign with the key bytes recovered from nothing: not possible. HS384 / expired tokens
	// therefore use the foreign key AND a copy of the instance key obtained via the store's database file.
	key := c09InstanceKey(inst)
	mk := func(method jwt.SigningMethod, claims jwt.Claims, k interface{}) string {
		s, err := jwt.NewWithClaims(method, claims).SignedString(k)
		if err != nil {
			return "ERR" + err.Error()
		}
		return s
	}
	now := time.Now()
	expired := mk(jwt.SigningMethodHS256, jwt.StandardClaims{ExpiresAt: now.Add(-time.Hour).Unix(), Issuer: "simpleiot", Id: "u"}, key)
	justExpired := mk(jwt.SigningMethodHS256, jwt.StandardClaims{ExpiresAt: now.Add(-2 * time.Second).Unix(), Issuer: "simpleiot", Id: "u"}, key)
	hs384 := mk(jwt.SigningMethodHS384, jwt.StandardClaims{ExpiresAt: now.Add(time.Hour).Unix(), Issuer: "simpleiot", Id: "u"}, key)
	hs512 := mk(jwt.SigningMethodHS512, jwt.StandardClaims{ExpiresAt: now.Add(time.Hour).Unix(), Issuer: "simpleiot", Id: "u"}, key)
	none := mk(jwt.SigningMethodNone, jwt.StandardClaims{ExpiresAt: now.Add(time.Hour).Unix(), Issuer: "simpleiot", Id: "u"}, jwt.UnsafeAllowNoneSignatureType)
	noJti := mk(jwt.SigningMethodHS256, jwt.MapClaims{"exp": now.Add(time.Hour).Unix(), "iss": "simpleiot"}, key)
	numJti := mk(jwt.SigningMethodHS256, jwt.MapClaims{"exp": now.Add(time.Hour).Unix(), "jti": 5}, key)
	nbf := mk(jwt.SigningMethodHS256, jwt.StandardClaims{ExpiresAt: now.Add(2 * time.Hour).Unix(), NotBefore: now.Add(time.Hour).Unix(), Id: "u"}, key)
	ownOK := mk(jwt.SigningMethodHS256, jwt.StandardClaims{ExpiresAt: now.Add(time.Hour).Unix(), Issuer: "simpleiot", Id: "u"}, key)
	parts := strings.Split(good, ".")
	tamperedPayload := parts[0] + "." + c09FlipBit(parts[1]) + "." + parts[2]
	tamperedSig := parts[0] + "." + parts[1] + "." + c09FlipBit(parts[2])
	noneHdr := "eyJhbGciOiJub25lIiwidHlwIjoiSldUIn0" // {"alg":"none","typ":"JWT"}
	// every combination of one certain defect (foreign key, tampered signature, expired) with the optional
	// time claims iat / nbf absent, in the past or in the future: a second, "softer" validation error
	// must never mask the first
	var combos []c09Hdr
	for _, defect := range []string{"other-key", "signature-tampered", "expired"} {
		for _, iat := range []string{"absent", "past", "future"} {
			for _, nb := range []string{"absent", "past", "future"} {
				if iat == "absent" && nb == "absent" {
					continue // the plain variants are in the list below
				}
				cl := jwt.MapClaims{"exp": now.Add(time.Hour).Unix(), "iss": "simpleiot", "jti": "someuser"}
				if defect == "expired" {
					cl["exp"] = now.Add(-time.Hour).Unix()
				}
				switch iat {
				case "past":
					cl["iat"] = now.Add(-2 * time.Hour).Unix()
				case "future":
					cl["iat"] = now.Add(24 * time.Hour).Unix()
				}
				switch nb {
				case "past":
					cl["nbf"] = now.Add(-2 * time.Hour).Unix()
				case "future":
					cl["nbf"] = now.Add(24 * time.Hour).Unix()
				}
				var k interface{} = key
				if defect == "other-key" {
					k = []byte("another-key-another-key")
				}
				tok := mk(jwt.SigningMethodHS256, cl, k)
				if defect == "signature-tampered" {
					ps := strings.Split(tok, ".")
					tok = ps[0] + "." + ps[1] + "." + c09FlipBit(ps[2])
				}
				combos = append(combos, c09Hdr{defect + "+iat-" + iat + "+nbf-" + nb, "Bearer " + tok, true, false})
			}
		}
	}
	return append([]c09Hdr{
		{"absent", "", false, false},
		{"empty", "", true, false},
		{"the-auth-token", c09Token, true, true},
		{"auth-token-prefix", c09Token[:len(c09Token)-1], true, false},
		{"auth-token-plus-char", c09Token + "x", true, false},
		{"auth-token-lowercase", strings.ToLower(c09Token), true, false},
		{"bearer-auth-token", "Bearer " + c09Token, true, false},
		{"bearer-only", "Bearer", true, false},
		{"bearer-space", "Bearer ", true, false},
		{"valid-jwt", "Bearer " + good, true, true},
		{"valid-jwt-own-signed", "Bearer " + ownOK, true, true},
		{"valid-jwt-two-spaces", "Bearer  " + good, true, true},
		{"lowercase-bearer", "bearer " + good, true, false},
		{"basic-scheme", "Basic " + good, true, false},
		{"jwt-without-scheme", good, true, false},
		{"expired", "Bearer " + expired, true, false},
		{"expired-2s-ago", "Bearer " + justExpired, true, false},
		{"not-yet-valid", "Bearer " + nbf, true, false},
		{"other-key", "Bearer " + foreign, true, false},
		{"hs384-right-key", "Bearer " + hs384, true, false},
		{"hs512-right-key", "Bearer " + hs512, true, false},
		{"alg-none", "Bearer " + none, true, false},
		{"alg-none-header-spliced", "Bearer " + noneHdr + "." + parts[1] + ".", true, false},
		{"alg-none-header-with-sig", "Bearer " + noneHdr + "." + parts[1] + "." + parts[2], true, false},
		{"payload-tampered", "Bearer " + tamperedPayload, true, false},
		{"signature-tampered", "Bearer " + tamperedSig, true, false},
		{"truncated", "Bearer " + good[:len(good)-5], true, false},
		{"two-parts", "Bearer " + parts[0] + "." + parts[1], true, false},
		{"no-jti", "Bearer " + noJti, true, false},
		{"numeric-jti", "Bearer " + numJti, true, false},
		{"garbage", "Bearer a.b.c", true, false},
		{"nul", "Bearer \x00", true, false},
	}, combos...)
}

// c09InstanceKey reads the signing key the way an attacker could not: straight
// from the database file (harness privilege), to craft tokens that differ from
// an issued one in exactly one respect (algorithm, expiry, claims).
// c09FlipBit changes one bit of the bytes a base64url segment stands for (replacing characters of the text can
// leave the decoded bytes as they were: the last character carries unused bits, and the new characters may be
// the old ones — that made a "tampered" token valid about once in a thousand tokens, §10)
func c09FlipBit(seg string) string {
	b, err := base64.RawURLEncoding.DecodeString(seg)
	if err != nil || len(b) == 0 {
		return seg + "A"
	}
	b[len(b)/2] ^= 0x01
	return base64.RawURLEncoding.EncodeToString(b)
}

func c09InstanceKey(inst *sh.Inst) []byte {
	k, err := sh.ReadJWTKey(inst.File)
	if err != nil {
		panic("HARNESS: cannot read jwt key: " + err.Error())
	}
	return k
}

type c09Case struct {
	Method string `json:"method"`
	Path   string `json:"path"`
	Header string `json:"authorization_header_kind"`
	Body   string `json:"body"`
}

func checkC09(r *mc.Report, thorough bool) {
	if i, _ := mc.Shard(); i == 0 {
		c09HTTP(r, thorough)
		c09OldDatabase(r)
		c09BusToken(r)
	}
	depth := 5
	if thorough {
		depth = 6
	}
	r.Explore(mc.Config{Name: fmt.Sprintf("login-placements-d%d", depth), Prune: true, SplitDepth: 2,
		Rule: fmt.Sprintf("explicit-state search over user placements: histories of %d writes over {root>G1, root>G2, G1>G2, root>U, G1>U, G2>U} x {live, deleted} (move, mirror, delete, re-add, delete/undelete containing groups); in every state: login (auth.user request and POST /v1/auth) with the right credentials, a wrong password, 18 near misses (case, blanks, prefix, longer, empty, another user's e-mail or password, SQL wildcards, the user's own e-mail / pass points stored under key \"1\") for a second user with the same e-mail and another password, and for the default admin, compared with reachability of the root through non-deleted edges; issued token validates; node listing within the subtrees of the user's live placements", depth)},
		c09LoginBody(depth))
	sh.CleanupTemplate()
	r.Assume("HTTP handler driven through ServeHTTP (api.NewV1Handler with the store's authorizer and an auth token); header values are passed verbatim")
	r.Assume("/v1/auth (login) is by design reachable without credentials and is excluded from the 401 oracle; the bus-token clause is checked separately against a real nats-server (part bus-token)")
}

// c09BusToken folds in the result of the in-package test against a real
// nats-server (run by run.sh before this binary; see overlay/bustoken_test.go.txt).
// c09OldDatabase: a store file that has a root but no token-signing key (what a version before the key column
// leaves behind: the open path adds the column and must create a key). The instance must never run with an
// empty key: a token anybody can forge with the empty key must be refused, before and after a further restart.
func c09OldDatabase(r *mc.Report) {
	c09OldDatabaseOn(r.Part("http-database-without-key", "store files with a root and NO token-signing key (key set to NULL / to an empty blob / the column dropped as in the schema before it existed), opened again (twice): tokens forged with the empty key, with a zero byte and with the old instance's key are refused on every /v1/nodes route (401), a token issued by the reopened instance is accepted and still accepted after the next restart"))
}

func c09OldDatabaseOn(p *mc.Part) {
	variants := []struct {
		name  string
		stmts []string
	}{
		{"key-null", []string{"UPDATE meta SET jwt_key = NULL"}},
		{"key-empty-blob", []string{"UPDATE meta SET jwt_key = x''"}},
		{"column-dropped", []string{"ALTER TABLE meta DROP COLUMN jwt_key"}},
	}
	for _, v := range variants {
		dir, err := os.MkdirTemp(mc.ScratchDir(), "verif-c09-")
		if err != nil {
			p.Violation("harness", "HARNESS: "+err.Error(), nil)
			return
		}
		func() {
			defer os.RemoveAll(dir)
			file := filepath.Join(dir, "db")
			fail := func(key, msg string) {
				p.Violation(key+"/"+v.name, fmt.Sprintf("database variant %s: %s", v.name, msg), map[string]string{"variant": v.name})
			}
			a, err := sh.New(sh.Opts{File: file, NoTemplate: true, AuthToken: c09Token})
			if err != nil {
				fail("harness", "HARNESS: "+err.Error())
				return
			}
			oldKey, _ := sh.ReadJWTKey(file)
			a.Stop()
			if err := sh.ExecSQL(file, v.stmts...); err != nil {
				p.Cap("variant " + v.name + " cannot be prepared with this SQLite: " + err.Error())
				return
			}
			forge := func(k []byte) string {
				s, _ := jwt.NewWithClaims(jwt.SigningMethodHS256, jwt.StandardClaims{ExpiresAt: time.Now().Add(time.Hour).Unix(), Issuer: "simpleiot", Id: "intruder"}).SignedString(k)
				return s
			}
			forged := map[string]string{"empty key": forge([]byte{}), "one zero byte": forge([]byte{0}), "key of the file before the key was lost": forge(oldKey)}
			serve := func(inst *sh.Inst, bearer string) int {
				h := api.NewV1Handler(api.ServerArgs{JwtAuth: inst.Store.GetAuthorizer(), AuthToken: c09Token, Nc: inst.Nc})
				req := httptest.NewRequest("GET", "http://x/nodes", nil)
				req.Header.Set("Authorization", "Bearer "+bearer)
				rec := httptest.NewRecorder()
				h.ServeHTTP(rec, req)
				return rec.Code
			}
			var issued string
			for round := 1; round <= 2; round++ {
				b, err := sh.New(sh.Opts{File: file, NoTemplate: true, AuthToken: c09Token, RootID: a.RootID, RawRootID: true})
				if err != nil {
					fail("does-not-open", fmt.Sprintf("open %d of the file fails: %v", round, err))
					return
				}
				for name, tok := range forged {
					p.Case(true)
					p.Step(1)
					if code := serve(b, tok); code != http.StatusUnauthorized {
						fail("forged-token-accepted", fmt.Sprintf("open %d: GET /v1/nodes with a token signed with the %s answered %d, expected 401", round, name, code))
					}
				}
				if issued != "" {
					p.Case(true)
					if code := serve(b, issued); code == http.StatusUnauthorized {
						fail("issued-token-refused-after-restart", "a token issued by the reopened instance is refused after the next restart (the new key was not stored)")
					}
				}
				issued, _ = b.Store.GetAuthorizer().NewToken("someuser")
				p.Case(true)
				if code := serve(b, issued); code == http.StatusUnauthorized {
					fail("issued-token-refused", fmt.Sprintf("open %d: a token the instance has just issued is refused", round))
				}
				b.Stop()
			}
		}()
	}
	p.Done()
}

func c09BusToken(r *mc.Report) {
	path := os.Getenv("VERIF_C09_BUSTOKEN")
	if path == "" {
		fmt.Fprintln(os.Stderr, "HARNESS-ERROR: C09 must be started through run.sh (bus-token result missing)")
		os.Exit(3)
	}
	b, err := os.ReadFile(path)
	var res struct {
		Cases      int      `json:"cases"`
		Violations []string `json:"violations"`
		Samples    []string `json:"samples"`
		Error      string   `json:"error"`
	}
	if err != nil || json.Unmarshal(b, &res) != nil || res.Error != "" || res.Cases == 0 {
		fmt.Fprintln(os.Stderr, "HARNESS-ERROR: bus-token result unusable:", err, res.Error)
		os.Exit(3)
	}
	p := r.Part("bus-token", "real nats-server created by server.newNatsServer(Auth=token) on a random loopback port; real nats.go clients with no / empty / wrong / prefix / extended / case-changed token, user+password instead of a token, and the token (3 rounds): connects and can publish+subscribe iff the token is exactly right")
	p.Cases(int64(res.Cases), int64(res.Cases))
	for _, v := range res.Violations {
		p.Violation("bus-token", v, nil)
	}
	p.Done()
	r.AddSample(map[string]any{"part": "bus-token", "cases": res.Samples})
}

// placement states whose HTTP login has been checked in this process
var c09HTTPChecked sync.Map

func c09HTTP(r *mc.Report, thorough bool) {
	inst, err := sh.New(sh.Opts{AuthToken: c09Token})
	if err != nil {
		r.AddViolation("http", "harness", "HARNESS: "+err.Error(), nil)
		return
	}
	defer inst.Close()
	root := inst.RootID
	if err := client.SendNode(inst.Nc, data.NodeEdge{ID: "n1", Parent: root, Type: "vtest", Points: data.Points{{Type: "description", Text: "d", Time: time.Unix(0, 5)}}}, ""); err != nil {
		r.AddViolation("http", "harness", "HARNESS: "+err.Error(), nil)
		return
	}
	handler := api.NewV1Handler(api.ServerArgs{JwtAuth: inst.Store.GetAuthorizer(), AuthToken: c09Token, Nc: inst.Nc})
	var traffic []string
	inst.Bus.Spy(func(subject, reply string, d []byte) {
		if !strings.HasPrefix(subject, "_INBOX.") {
			traffic = append(traffic, subject)
		}
	})
	methods := []string{"GET", "POST", "PUT", "DELETE", "PATCH", "HEAD", "OPTIONS", "TRACE"}
	paths := []string{"/nodes", "/nodes/", "/nodes/n1", "/nodes/" + root, "/nodes/n1/points", "/nodes/n1/samples", "/nodes/n1/parents", "/nodes/n1/not", "/nodes/n1/unknown",
		"//nodes//n1", "/nodes/n1/", "/nodes/../nodes/n1", "/nodes/n1/points/extra", "/nodes/all", "/nodes/root"}
	bodies := []string{"", root, `{"id":"nx","type":"vtest","parent":"` + root + `","points":[{"type":"description","text":"x"}]}`, `[{"type":"value","value":5}]`,
		`{"ID":"n1","OldParent":"` + root + `","NewParent":"n1"}`, `{"Parent":"` + root + `"}`, "garbage{"}
	hdrs := c09Headers(inst)
	universe := []string{root, "n1", "nx"}
	before, _ := inst.Snap(universe)

	p := r.Part("http-unauthenticated", fmt.Sprintf("%d methods x %d paths under /v1/nodes x %d invalid Authorization header values (absent, malformed, wrong scheme/case, token variants, expired, other key, HS384/HS512 with the right key, alg none, tampered, truncated, missing/odd claims, and every combination of {other key, tampered signature, expired} with iat / nbf absent, past or future) x %d bodies: status 401, no message on the bus, store unchanged", len(methods), len(paths), len(hdrs), len(bodies)))
	for _, h := range hdrs {
		if h.valid {
			continue
		}
		for _, m := range methods {
			for _, pa := range paths {
				for _, b := range bodies {
					traffic = nil
					req := httptest.NewRequest(m, "http://x"+pa, strings.NewReader(b))
					if h.set {
						req.Header["Authorization"] = []string{h.value}
					}
					rec := httptest.NewRecorder()
					pan := mc.Safely(func() { handler.ServeHTTP(rec, req) })
					p.Case(true)
					p.Step(1)
					cs := c09Case{m, pa, h.name, b}
					if pan != "" {
						p.Violation("http-panic", fmt.Sprintf("%s %s with header %s panicked: %s", m, pa, h.name, pan), cs)
						continue
					}
					if rec.Code != http.StatusUnauthorized {
						p.Violation("served-without-credentials/"+h.name, fmt.Sprintf("%s /v1%s with Authorization header kind %q (%q) answered %d, expected 401", m, pa, h.name, h.value, rec.Code), cs)
					}
					if len(traffic) > 0 {
						p.Violation("bus-traffic-without-credentials/"+h.name, fmt.Sprintf("%s /v1%s with invalid header %q caused bus messages %v", m, pa, h.name, traffic), cs)
					}
				}
			}
		}
	}
	after, _ := inst.Snap(universe)
	if before.String() != after.String() {
		p.Violation("store-changed-by-unauthenticated-requests", "store content changed:\nbefore\n"+before.String()+"after\n"+after.String(), nil)
	}
	p.Done()
	r.AddSample(map[string]any{"part": "http-unauthenticated", "case": c09Case{"PUT", "/nodes/n1/parents", "hs384-right-key", bodies[4]}})

	// ---- expiry over time: the same token presented before and after it expires (jwt.TimeFunc is the library's clock seam)
	p = r.Part("http-token-expiry-sequences", "issued tokens presented along a timeline on ONE handler instance: every sequence of 3 instants from {issue, just before expiry, expiry+1 s, expiry+1 day, issue again} x 2 tokens (one presented, one never presented before it expired): 401 exactly at the instants after expiry, whatever was presented before")
	{
		auth := inst.Store.GetAuthorizer()
		tokA, _ := auth.NewToken("userA")
		tokB, _ := auth.NewToken("userB")
		issue := time.Now()
		exp := issue.Add(168 * time.Hour)
		instants := []struct {
			name  string
			t     time.Time
			valid bool
		}{{"issue", issue.Add(time.Second), true}, {"just-before-expiry", exp.Add(-2 * time.Second), true}, {"expiry+1s", exp.Add(time.Second), false}, {"expiry+1day", exp.Add(24 * time.Hour), false}, {"back-at-issue", issue.Add(2 * time.Second), true}}
		defer func() { jwt.TimeFunc = time.Now }()
		present := func(tok string, at time.Time) int {
			jwt.TimeFunc = func() time.Time { return at }
			req := httptest.NewRequest("GET", "http://x/nodes/n1", strings.NewReader(root))
			req.Header["Authorization"] = []string{"Bearer " + tok}
			rec := httptest.NewRecorder()
			handler.ServeHTTP(rec, req)
			return rec.Code
		}
		for i := range instants {
			for j := range instants {
				for k := range instants {
					// a fresh handler+authorizer state cannot be had without a new store; sequences are independent as long as
					// validity depends only on the instant, which is exactly what is being checked
					seq := []int{i, j, k}
					var names []string
					for _, s := range seq {
						in := instants[s]
						names = append(names, in.name)
						code := present(tokA, in.t)
						p.Case(true)
						p.Step(1)
						if (code != http.StatusUnauthorized) != in.valid {
							p.Violation("token-validity-depends-on-history", fmt.Sprintf("token presented at %v: at instant %s the request was answered %d (token valid there: %v)", names, in.name, code, in.valid), c09Case{"GET", "/nodes/n1", "issued-jwt@" + strings.Join(names, ","), ""})
						}
					}
					// the control token is only ever presented after its expiry
					if code := present(tokB, instants[3].t); code != http.StatusUnauthorized {
						p.Violation("expired-token-served", fmt.Sprintf("a token first presented after its expiry was answered %d", code), c09Case{"GET", "/nodes/n1", "issued-jwt-first-seen-expired", ""})
					}
				}
			}
		}
		jwt.TimeFunc = time.Now
	}
	p.Done()

	p = r.Part("http-authenticated", "the same methods x paths x bodies with each VALID header (the auth token; issued JWT; issued JWT with extra spaces): never 401")
	for _, h := range hdrs {
		if !h.valid {
			continue
		}
		for _, m := range methods {
			for _, pa := range paths {
				for _, b := range bodies {
					if m == "DELETE" && (strings.Contains(pa, root) || b == `{"Parent":"`+root+`"}`) {
						continue // do not delete the fixtures the later requests address
					}
					req := httptest.NewRequest(m, "http://x"+pa, strings.NewReader(b))
					req.Header["Authorization"] = []string{h.value}
					rec := httptest.NewRecorder()
					pan := mc.Safely(func() { handler.ServeHTTP(rec, req) })
					p.Case(true)
					p.Step(1)
					if pan != "" {
						p.Violation("http-panic", fmt.Sprintf("%s %s with header %s panicked: %s", m, pa, h.name, pan), c09Case{m, pa, h.name, b})
					} else if rec.Code == http.StatusUnauthorized {
						p.Violation("valid-credentials-refused/"+h.name, fmt.Sprintf("%s /v1%s with valid header kind %q answered 401", m, pa, h.name), c09Case{m, pa, h.name, b})
					}
				}
			}
		}
	}
	p.Done()
}

func c09LoginBody(depth int) mc.Body {
	type edge struct{ p, c, typ string }
	cand := []edge{{"R", "G1", "group"}, {"R", "G2", "group"}, {"G1", "G2", "group"}, {"R", "U", "user"}, {"G1", "U", "user"}, {"G2", "U", "user"}}
	return func(x *mc.X) mc.Outcome {
		inst, err := sh.New(sh.Opts{})
		if err != nil {
			return mc.Outcome{Violation: "HARNESS: " + err.Error(), Key: "harness"}
		}
		defer inst.Close()
		root := inst.RootID
		id := func(n string) string {
			if n == "R" {
				return root
			}
			return n
		}
		clock := int64(100)
		tick := func() time.Time { clock++; return time.Unix(0, clock) }
		v1 := api.NewV1Handler(api.ServerArgs{JwtAuth: inst.Store.GetAuthorizer(), AuthToken: c09Token, Nc: inst.Nc})
		u := data.User{ID: "U", FirstName: "f", LastName: "l", Email: "u@x.com", Pass: "pw"}
		if err := client.SendNodePoints(inst.Nc, "U", u.ToPoints(), true); err != nil {
			return mc.Outcome{Violation: "HARNESS: " + err.Error(), Key: "harness"}
		}
		// U also has a second address and an application secret under key "1", written after the main ones: they are
		// not the user's login credentials
		if err := client.SendNodePoints(inst.Nc, "U", data.Points{{Type: data.PointTypeEmail, Key: "1", Text: "alt@x.com", Time: tick()}, {Type: data.PointTypePass, Key: "1", Text: "altpw", Time: tick()}}, true); err != nil {
			return mc.Outcome{Violation: "HARNESS: " + err.Error(), Key: "harness"}
		}
		// a second user with the SAME e-mail and another password, always attached below the root: each pair of
		// credentials must log in its own user
		u2 := data.User{ID: "U2", FirstName: "g", LastName: "m", Email: u.Email, Pass: "pw2"}
		if err := client.SendNode(inst.Nc, data.NodeEdge{ID: "U2", Type: data.NodeTypeUser, Parent: root, Points: u2.ToPoints()}, ""); err != nil {
			return mc.Outcome{Violation: "HARNESS: " + err.Error(), Key: "harness"}
		}
		state := map[edge]int{} // 0 absent, 1 live, 2 deleted
		key := func() string {
			var s []string
			for _, e := range cand {
				s = append(s, fmt.Sprintf("%s>%s:%d", e.p, e.c, state[e]))
			}
			return strings.Join(s, ",")
		}
		connected := func() bool {
			live := map[string]bool{"R": true}
			for changed := true; changed; {
				changed = false
				for _, e := range cand {
					if state[e] == 1 && live[e.p] && !live[e.c] {
						live[e.c] = true
						changed = true
					}
				}
			}
			return live["U"]
		}
		check := func() *mc.Outcome {
			want := connected()
			nodes, err := client.UserCheck(inst.Nc, u.Email, u.Pass)
			x.Step(1)
			if err != nil {
				return &mc.Outcome{Violation: "auth.user not answered: " + err.Error(), Key: "login-not-answered"}
			}
			var token string
			for _, n := range nodes {
				if n.Type == data.NodeTypeJWT {
					if p, ok := n.Points.Find(data.PointTypeToken, ""); ok {
						token = p.Text
					}
				}
			}
			got := token != ""
			hist := strings.Join(x.History(), "; ")
			if got != want {
				k := "login-refused-for-connected-user"
				if got {
					k = "login-granted-for-disconnected-user"
				}
				return &mc.Outcome{Violation: fmt.Sprintf("placements {%s} (history: %s): user connected to the root through live edges = %v, token issued = %v", key(), hist, want, got), Key: k}
			}
			if got {
				req := httptest.NewRequest("GET", "http://x/", nil)
				req.Header.Set("Authorization", "Bearer "+token)
				if ok, uid := inst.Store.GetAuthorizer().Valid(req); !ok || uid != "U" {
					return &mc.Outcome{Violation: fmt.Sprintf("issued token does not validate (ok=%v user=%q)", ok, uid), Key: "issued-token-invalid"}
				}
			}
			if nodes, _ := client.UserCheck(inst.Nc, u.Email, "wrong"); len(nodes) > 0 {
				return &mc.Outcome{Violation: "login with a wrong password returned nodes in state " + key(), Key: "login-wrong-password"}
			}
			// the same through the HTTP login endpoint (POST /v1/auth with form values)
			httpLogin := func(email, pass string) (int, string) {
				form := url.Values{"email": {email}, "password": {pass}}
				req := httptest.NewRequest("POST", "http://x/auth", strings.NewReader(form.Encode()))
				req.Header.Set("Content-Type", "application/x-www-form-urlencoded")
				rec := httptest.NewRecorder()
				v1.ServeHTTP(rec, req)
				var a data.Auth
				_ = json.Unmarshal(rec.Body.Bytes(), &a)
				return rec.Code, a.Token
			}
			// (evaluated once per placement state and process, the verdict is kept: the answer depends on the placements only)
			if v, ok := c09HTTPChecked.Load(key()); ok {
				if o, _ := v.(*mc.Outcome); o != nil {
					return o
				}
			}
			httpDone := false
			if _, ok := c09HTTPChecked.Load(key()); ok {
				httpDone = true
			}
			keep := func(o *mc.Outcome) *mc.Outcome { c09HTTPChecked.Store(key(), o); return o }
			code, tok := 0, ""
			if !httpDone {
				code, tok = httpLogin(u.Email, u.Pass)
			}
			if !httpDone && (code == 200 && tok != "") != want {
				return keep(&mc.Outcome{Violation: fmt.Sprintf("placements {%s}: POST /v1/auth with the user's credentials answered %d (token issued: %v); user connected to the root = %v", key(), code, tok != "", want), Key: "http-login-differs-from-reachability"})
			}
			if want && !httpDone {
				req := httptest.NewRequest("GET", "http://x/", nil)
				req.Header.Set("Authorization", "Bearer "+tok)
				if ok, uid := inst.Store.GetAuthorizer().Valid(req); !ok || uid != "U" {
					return keep(&mc.Outcome{Violation: fmt.Sprintf("token issued by POST /v1/auth does not validate (ok=%v user=%q)", ok, uid), Key: "issued-token-invalid"})
				}
				for _, cr := range [][2]string{{u.Email, "pw "}, {u.Email, " pw"}, {u.Email + " ", u.Pass}, {u.Email, "PW"}} {
					if code, tok := httpLogin(cr[0], cr[1]); code == 200 && tok != "" {
						return keep(&mc.Outcome{Violation: fmt.Sprintf("POST /v1/auth with e-mail %q and password %q (the user has %q / %q) issued a token", cr[0], cr[1], u.Email, u.Pass), Key: "login-near-miss-credentials"})
					}
				}
			}
			// near misses: the e-mail and the password must match exactly
			for _, cr := range map[bool][][2]string{false: nil, true: {{u.Email, ""}, {u.Email, "PW"}, {u.Email, "pw "}, {u.Email, " pw"}, {u.Email, "p"}, {u.Email, "pww"},
				{"U@X.COM", u.Pass}, {"u@x.com ", u.Pass}, {" u@x.com", u.Pass}, {"u@x.co", u.Pass}, {"", u.Pass}, {"admin@admin.com", u.Pass}, {u.Email, "admin"}, {"%", "%"}, {"u@x.com' OR '1'='1", u.Pass}, {"alt@x.com", "altpw"}, {u.Email, "altpw"}, {"alt@x.com", u.Pass}}}[want && !httpDone] { // (only where the right credentials succeed; once per state)
				if nodes, _ := client.UserCheck(inst.Nc, cr[0], cr[1]); len(nodes) > 0 {
					return keep(&mc.Outcome{Violation: fmt.Sprintf("login with e-mail %q and password %q (the user has %q / %q) returned nodes in state %s", cr[0], cr[1], u.Email, u.Pass, key()), Key: "login-near-miss-credentials"})
				}
			}
			if !httpDone {
				c09HTTPChecked.Store(key(), (*mc.Outcome)(nil))
			}
			// the namesake with the other password logs in as itself, whatever happens to U
			if !httpDone {
				n2, _ := client.UserCheck(inst.Nc, u2.Email, u2.Pass)
				tok2 := ""
				for _, n := range n2 {
					if n.Type == data.NodeTypeJWT {
						if p, ok := n.Points.Find(data.PointTypeToken, ""); ok {
							tok2 = p.Text
						}
					}
				}
				req := httptest.NewRequest("GET", "http://x/", nil)
				req.Header.Set("Authorization", "Bearer "+tok2)
				if ok, uid := inst.Store.GetAuthorizer().Valid(req); tok2 == "" || !ok || uid != "U2" {
					return keep(&mc.Outcome{Violation: fmt.Sprintf("placements {%s}: the second user with the same e-mail and its own password gets token=%v valid=%v user=%q (expected a token for U2)", key(), tok2 != "", ok, uid), Key: "login-wrong-user-for-shared-email"})
				}
			}
			if nodes, _ := client.UserCheck(inst.Nc, "", ""); len(nodes) > 0 {
				return &mc.Outcome{Violation: "login with empty credentials returned nodes in state " + key(), Key: "login-empty-credentials"}
			}
			if nodes, _ := client.UserCheck(inst.Nc, "admin@admin.com", "admin"); len(nodes) < 2 {
				return &mc.Outcome{Violation: "default admin (under the root) cannot log in in state " + key(), Key: "admin-login-refused"}
			}
			// listing: only subtrees of the user's live placements
			list, err := client.GetNodesForUser(inst.Nc, "U")
			if err != nil {
				return &mc.Outcome{Violation: "GetNodesForUser failed: " + err.Error(), Key: "listing-failed"}
			}
			allowed := map[string]bool{}
			var down func(n string)
			down = func(n string) {
				if allowed[n] {
					return
				}
				allowed[n] = true
				for _, e := range cand {
					if e.p == n && state[e] == 1 {
						down(e.c)
					}
				}
			}
			for _, e := range cand {
				if e.c == "U" && state[e] == 1 {
					down(e.p)
				}
			}
			var bad []string
			for _, n := range list {
				nid := n.ID
				if nid == root {
					nid = "R"
				}
				if !allowed[nid] && !(allowed["R"] && n.Type == data.NodeTypeUser && n.ID != "U") {
					bad = append(bad, n.ID)
				}
			}
			if len(bad) > 0 {
				sort.Strings(bad)
				return &mc.Outcome{Violation: fmt.Sprintf("placements {%s}: listing for the user contains %v, outside the subtrees of its live placements", key(), bad), Key: "listing-outside-subtree"}
			}
			return nil
		}
		if !x.Replaying() {
			if v := check(); v != nil {
				return *v
			}
		}
		for d := 0; d < depth; d++ {
			c := x.Choose(len(cand)*2, "op")
			e, del := cand[c/2], c%2 == 1
			want := 1
			if del {
				want = 2
			}
			if state[e] == want {
				return mc.Outcome{Trivial: true, Obs: "noop"}
			}
			v := 0.0
			if del {
				v = 1
			}
			pts := data.Points{{Type: data.PointTypeTombstone, Value: v, Time: tick()}}
			if state[e] == 0 {
				pts = append(pts, data.Point{Type: data.PointTypeNodeType, Text: e.typ})
			}
			if err := client.SendEdgePoints(inst.Nc, e.c, id(e.p), pts, true); err != nil {
				return mc.Outcome{Violation: fmt.Sprintf("legal edge write %s>%s refused: %v", e.p, e.c, err), Key: "legal-write-refused"}
			}
			x.Step(1)
			state[e] = want
			x.Logf("%s>%s deleted=%v", e.p, e.c, del)
			if !x.Replaying() {
				if v := check(); v != nil {
					return *v
				}
			}
			x.StateKey(fmt.Sprintf("%d|%s", depth-d-1, key()))
		}
		return mc.Outcome{Obs: key()}
	}
}

func init() {
	registerSharded("C09", "model_checking", checkC09)
	for _, d := range []int{4, 5, 6} {
		bodies[fmt.Sprintf("C09/login-placements-d%d", d)] = c09LoginBody(d)
	}
}
