// Command verifs runs the tier-S (sequential, default toolchain) checks.
//
//	verifs <property> <quick|thorough>
//	verifs replay <file>
package main

import (
	"encoding/json"
	"fmt"
	"io"
	"log"
	"os"
	"runtime"
	"runtime/debug"
	"sort"

	"verif/h/mc"
)

type checkFn func(r *mc.Report, thorough bool)

type check struct {
	level   string
	fn      checkFn
	sharded bool // explore in 16 single-threaded processes
}

var checks = map[string]check{}

func register(id, level string, fn checkFn) { checks[id] = check{level, fn, false} }

func registerSharded(id, level string, fn checkFn) { checks[id] = check{level, fn, true} }

func root() string {
	if r := os.Getenv("VERIF_ROOT"); r != "" {
		return r
	}
	return "/verif"
}

func main() {
	if len(os.Args) < 3 {
		var ids []string
		for k := range checks {
			ids = append(ids, k)
		}
		sort.Strings(ids)
		fmt.Fprintln(os.Stderr, "usage: verifs <property> <quick|thorough>; known:", ids)
		os.Exit(2)
	}
	// runaway recursion in the implementation shall die quickly, not after 1 GB of stack
	debug.SetMaxStack(16 << 20)
	if os.Getenv("VERIF_LOG") == "" {
		log.SetOutput(io.Discard)
	}
	id, tier := os.Args[1], os.Args[2]
	if id == "replay" {
		os.Exit(replay(os.Args[2]))
	}
	if id == "exec-one" { // exec-one <property> <part> <choices json>
		body, ok := bodies[os.Args[2]+"/"+os.Args[3]]
		var prefix []int
		if !ok || json.Unmarshal([]byte(os.Args[4]), &prefix) != nil {
			fmt.Fprintln(os.Stderr, "HARNESS-ERROR: exec-one: unknown part or bad choices")
			os.Exit(3)
		}
		os.Exit(mc.ExecOne(body, prefix))
	}
	c, ok := checks[id]
	if !ok {
		fmt.Fprintln(os.Stderr, "HARNESS-ERROR: unknown check", id)
		os.Exit(3)
	}
	if tier != "quick" && tier != "thorough" {
		fmt.Fprintln(os.Stderr, "HARNESS-ERROR: tier must be quick or thorough")
		os.Exit(3)
	}
	r := mc.NewReport(root(), id, tier, c.level)
	if _, n := mc.Shard(); c.sharded && n == 1 && os.Getenv("VERIF_NOSHARD") == "" {
		r.RunSharded(runtime.NumCPU(), os.Args[1:])
	} else {
		c.fn(r, tier == "thorough")
	}
	os.Exit(r.Finish())
}
