package main

import (
	"bytes"
	"encoding/hex"
	"fmt"
	"math"
	"strings"
	"time"

	"github.com/simpleiot/simpleiot/client"
	"github.com/simpleiot/simpleiot/data"
	"verif/h/mc"
)

// C17: serial packets round-trip; corruption (1-2 bit errors, bursts <= 16
// bits) on documented subjects is always detected; log packets exempt.

type c17Case struct {
	PacketHex  string `json:"packet_hex"`
	MutatedHex string `json:"mutated_hex,omitempty"`
	Subject    string `json:"subject"`
	Pattern    string `json:"pattern,omitempty"`
}

func c17Points() []data.Points {
	t1 := time.Unix(0, 1)
	one := []data.Point{
		{Type: "temp", Key: "0", Value: 1, Time: t1},
		{Type: "", Key: "", Value: 0, Time: time.Unix(0, 0)},
		{Type: "é✓", Key: "😀", Value: -1.5, Text: "x\x00y", Time: time.Unix(0, -1), Tombstone: 1, Origin: "o"},
		{Type: "v", Value: math.MaxFloat32, Time: time.Unix(0, math.MaxInt64), Tombstone: math.MaxInt32},
		{Type: "v", Value: math.Inf(-1), Time: time.Unix(0, math.MinInt64), Tombstone: math.MinInt32, Origin: strings.Repeat("o", 40)},
		{Type: "v", Value: float64(math.SmallestNonzeroFloat32), Time: time.Unix(1700000000, 123456789), Data: []byte{0, 0xff, 0x80}},
		{Type: "v", Value: math.Copysign(0, -1), Time: t1, Text: strings.Repeat("t", 200)},
	}
	out := []data.Points{{}}
	for _, p := range one {
		out = append(out, data.Points{p})
	}
	for i := range one {
		for j := range one {
			out = append(out, data.Points{one[i], one[j]})
		}
	}
	return out
}

func c17Round(seq byte, subject string, pts data.Points) string {
	in := append(data.Points{}, pts...)
	pkt, err := client.SerialEncode(seq, subject, in)
	if err != nil {
		return "SerialEncode error: " + err.Error()
	}
	s, sub, payload, err := client.SerialDecode(pkt)
	if err != nil {
		return "SerialDecode error: " + err.Error()
	}
	if s != seq {
		return fmt.Sprintf("sequence %d != %d", s, seq)
	}
	if sub != subject {
		return fmt.Sprintf("subject %q != %q", sub, subject)
	}
	out, err := data.PbDecodeSerialPoints(payload)
	if err != nil {
		return "PbDecodeSerialPoints error: " + err.Error()
	}
	want := make([]data.Point, len(pts))
	for i, p := range pts {
		p.Value = float64(float32(p.Value))
		p.Time = time.Unix(0, p.Time.UnixNano())
		want[i] = p
	}
	return ptsEq(want, out)
}

// undetected reports whether the mutated packet is delivered with different
// content.
func c17Undetected(orig, mut []byte, oseq byte, osub string, opayload []byte) (bool, string) {
	s, sub, pl, err := client.SerialDecode(mut)
	if err != nil {
		return false, ""
	}
	if s == oseq && sub == osub && bytes.Equal(pl, opayload) {
		return false, ""
	}
	return true, sub
}

func flipBit(b []byte, bit int, lsbFirst bool) {
	if lsbFirst {
		b[bit/8] ^= 1 << (bit % 8)
	} else {
		b[bit/8] ^= 0x80 >> (bit % 8)
	}
}

func checkC17(r *mc.Report, thorough bool) {
	// ---- round trip
	subjects := []string{"", "p.x", "p.x.y", "phr", "ack", "p.g", "p.0123456789abcd", "p.é.✓", "p.b4a1f2c0.parent"[:16]}
	ptLists := c17Points()
	p := r.Part("roundtrip", fmt.Sprintf("all 256 sequence numbers x %d subjects (blank .. 16 bytes) x %d point lists of 0..2 points (float32 boundary values, int64 ns times, data, unicode)", len(subjects), len(ptLists)))
	mc.ParallelFor(256, func(seq int) {
		for _, sub := range subjects {
			for _, pts := range ptLists {
				p.Case(true)
				p.Step(1)
				var msg string
				if pan := mc.Safely(func() { msg = c17Round(byte(seq), sub, pts) }); pan != "" {
					msg = "panic: " + pan
				}
				if msg != "" {
					pkt, _ := client.SerialEncode(byte(seq), sub, pts)
					p.Violation("roundtrip/"+firstField(msg), fmt.Sprintf("seq=%d subject=%q: %s", seq, sub, msg), c17Case{PacketHex: hex.EncodeToString(pkt), Subject: sub})
				}
			}
		}
	})
	p.Done()
	// 17-byte subject must be refused, not truncated
	if _, err := client.SerialEncode(1, strings.Repeat("s", 17), nil); err == nil {
		p.Violation("roundtrip/long-subject", "SerialEncode accepted a 17-byte subject", nil)
	}

	// ---- corruption
	type pk struct {
		sub string
		pts data.Points
	}
	pt := data.Point{Type: "temp", Key: "1", Value: 21.5, Time: time.Unix(1700000000, 5)}
	pks := []pk{
		{"", nil}, {"", data.Points{pt}}, {"", data.Points{pt, pt}},
		{"ack", nil},
		{"p.x", data.Points{pt}},
		{"p.x.y", data.Points{{Type: "tombstone", Value: 1, Time: time.Unix(1, 0)}}},
		{"phr", data.Points{pt}},
		{"p.0123456789abcd", data.Points{pt}},
	}
	// every documented 3-character node-point subject p.<c>: the only documented
	// forms within a 16-bit burst of "log"
	third := "gfedGc'ho0"
	if thorough {
		third = ""
		for c := 0x21; c < 0x7f; c++ {
			if c != '.' {
				third += string(rune(c))
			}
		}
	}
	for _, c := range []byte(third) {
		if thorough {
			pks = append(pks, pk{"p." + string([]byte{c}), data.Points{pt}})
		} else {
			pks = append(pks, pk{"p." + string([]byte{c}), nil})
		}
	}
	maxBurst := 16
	p = r.Part("corruption", fmt.Sprintf("%d packets (every documented subject form; p.<c> for %d characters c; 0..2 points): all single-bit flips, all double-bit flips, all bursts of length 2..%d (every pattern with first and last bit set, every position), in both bit orders (LSB-first = UART/CRC-16-KERMIT order, and MSB-first)", len(pks), len(third), maxBurst))
	mc.ParallelFor(len(pks)*2, func(ji int) {
		k := pks[ji/2]
		lsb := ji%2 == 0
		order := "msb-first"
		if lsb {
			order = "lsb-first"
		}
		pkt, err := client.SerialEncode(0x5a, k.sub, k.pts)
		if err != nil {
			p.Violation("encode-error", err.Error(), nil)
			return
		}
		oseq, osub, opl, err := client.SerialDecode(pkt)
		if err != nil || osub != k.sub {
			p.Violation("roundtrip/decode", fmt.Sprintf("%q: %v", k.sub, err), nil)
			return
		}
		opl = append([]byte{}, opl...)
		nbits := len(pkt) * 8
		mut := make([]byte, len(pkt))
		report := func(pattern string) {
			und, nsub := c17Undetected(pkt, mut, oseq, osub, opl)
			if !und {
				return
			}
			key := "undetected/" + k.sub
			if nsub == "log" {
				key = "log-bypass/subject=" + k.sub
			}
			p.Violation(key, fmt.Sprintf("packet with subject %q corrupted by %s (%s) is delivered as subject %q with different content", k.sub, pattern, order, nsub),
				c17Case{PacketHex: hex.EncodeToString(pkt), MutatedHex: hex.EncodeToString(mut), Subject: k.sub, Pattern: pattern + " " + order})
		}
		var n int64
		// single and double flips (double flips are order independent: do them once)
		for i := 0; i < nbits; i++ {
			copy(mut, pkt)
			flipBit(mut, i, lsb)
			n++
			report(fmt.Sprintf("1-bit flip at bit %d", i))
			if lsb {
				for j := i + 1; j < nbits; j++ {
					copy(mut, pkt)
					flipBit(mut, i, lsb)
					flipBit(mut, j, lsb)
					n++
					report(fmt.Sprintf("2-bit flip at bits %d,%d", i, j))
				}
			}
		}
		for L := 2; L <= maxBurst; L++ {
			for start := 0; start+L <= nbits; start++ {
				inner := L - 2
				for pat := 0; pat < 1<<inner; pat++ {
					copy(mut, pkt)
					flipBit(mut, start, lsb)
					flipBit(mut, start+L-1, lsb)
					for b := 0; b < inner; b++ {
						if pat&(1<<b) != 0 {
							flipBit(mut, start+1+b, lsb)
						}
					}
					n++
					report(fmt.Sprintf("burst length %d at bit %d pattern %#x", L, start, pat))
				}
			}
		}
		p.Cases(n, n)
		p.Step(n)
		if ji < 2 {
			r.AddSample(map[string]any{"part": "corruption", "packet": hex.EncodeToString(pkt), "subject": k.sub, "bit_order": order, "patterns": n})
		}
	})
	p.Done()
	r.Assume("burst = contiguous bit window in transmission order; both LSB-first (UART, the order CRC-16/KERMIT processes) and MSB-first are enumerated")
	r.Assume("'delivered with different content' = SerialDecode returns no error and (seq, subject, payload) differ from the original; packets whose original subject is 'log' are not enumerated (exempt)")
}

func init() {
	register("C17", "exploration", checkC17)
	rp := func(v *mc.Violation) string {
		c := reinput[c17Case](v)
		pkt, _ := hex.DecodeString(c.PacketHex)
		if c.MutatedHex == "" {
			_, _, _, err := client.SerialDecode(pkt)
			if err != nil {
				return "SerialDecode error: " + err.Error()
			}
			return ""
		}
		mut, _ := hex.DecodeString(c.MutatedHex)
		oseq, osub, opl, _ := client.SerialDecode(pkt)
		if und, nsub := c17Undetected(pkt, mut, oseq, osub, append([]byte{}, opl...)); und {
			return fmt.Sprintf("corrupted packet delivered as subject %q", nsub)
		}
		return ""
	}
	replayers["C17/roundtrip"] = rp
	replayers["C17/corruption"] = rp
}
