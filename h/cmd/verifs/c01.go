package main

import (
	"fmt"
	"math"
	"sort"
	"strings"
	"time"

	"github.com/simpleiot/simpleiot/client"
	"github.com/simpleiot/simpleiot/data"
	"verif/h/mc"
	"verif/h/sh"
)

// C01: newest point wins, whatever the delivery order or batching.
// Seam: client.SendNodePoints / SendEdgePoints (ack) -> real store handlers
// on the inline bus -> client.GetNodes.

type c01Ident struct{ typ, key string }

// identities chosen so that type+key concatenations collide, raw and with the key default: ("ab","") ~ ("a","b"),
// ("ab","0") ~ ("a","b0"), ("a0","") ~ ("a","0")
var c01Idents = []c01Ident{{"a", ""}, {"a", "0"}, {"ab", ""}, {"a", "b"}, {"a", "b0"}, {"a0", ""}}

func normKey(k string) string {
	if k == "" {
		return "0"
	}
	return k
}

var (
	c01TsA    = []int64{1, 2, 3, 4, 5}
	c01TsB    = []int64{math.MinInt64 + 1, -1, 1 << 62, math.MaxInt64 - 1, math.MaxInt64}
	c01Vals   = []float64{0, 1, -1.5, math.Inf(1), math.MaxFloat64, 5e-324}
	c01Texts  = []string{"", "x", "é✓", "", "t4"}
	c01Tombs  = []int{0, 1, 2, 0, 3}
	c01Origin = []string{"", "o", "", "o2", ""}
	c01Data   = [][]byte{nil, {1}, nil, {0, 255}, nil}
)

// samePayload: three points of ONE identity of which two or all three carry the same value, text, data,
// tombstone and origin and differ in nothing but the time ("the same reading sent again later").
func c01Body(edge bool, maxN int, samePayload ...bool) mc.Body {
	return c01BodyI(edge, maxN, c01Idents, samePayload...)
}

// c01EmptyType: identities whose type is the empty string next to typed ones with the same key
var c01EmptyType = []c01Ident{{"", ""}, {"a", ""}, {"", "b"}, {"a", "b"}}

// c01ID: an injective name of (type, key) — no separator that the strings themselves may contain
func c01ID(typ, key string) string { return fmt.Sprintf("%d:%s|%s", len(typ), typ, key) }

// c01Nul: identities whose strings contain a NUL byte (a separator-based identity would confuse them)
var c01Nul = []c01Ident{{"a\x00b", "c"}, {"a", "b\x00c"}, {"a\x00", ""}, {"a", "\x000"}}

// c01Numeric: keys that look like numbers but are not in canonical form (a column with numeric affinity would rewrite them)
var c01Numeric = []c01Ident{{"a", "01"}, {"a", "1"}, {"a", "-0"}, {"a", "1.0"}, {"a", "1e0"}, {"a", " 1"}}

// c01Twins: pairs of different identities whose type+key concatenation is the same
var c01Twins = [][]c01Ident{{{"ab", "c"}, {"a", "bc"}}, {{"a", "b0"}, {"ab", "0"}}, {{"a0", "1"}, {"a", "01"}}}

func c01BodyI(edge bool, maxN int, c01Idents []c01Ident, samePayload ...bool) mc.Body {
	same := len(samePayload) > 0 && samePayload[0]
	// twin mode (maxN < 0): exactly the two given identities, one timestamp, one payload — two different points
	// whose every field but the split between type and key is the same
	twin := maxN < 0
	return func(x *mc.X) mc.Outcome {
		n := 2
		if !twin {
			n = 1 + x.Choose(maxN, "npoints")
		}
		if same {
			n = 3
		}
		pts := make([]data.Point, n)
		// 4 timestamp assignments: small / int64 extremes, increasing or decreasing with the point index
		// (the other fields are tied to the index, so both "newer point has the larger tombstone/value" and the opposite occur)
		tv := 0
		pattern := -1
		if same {
			tv = []int{0, 2}[x.Choose(2, "ts-variant")]
			pattern = x.Choose(4, "which points share their payload")
		} else if n >= 4 {
			// thorough, 4 points: the two assignments that differ most (extremes rising, small falling)
			tv = []int{1, 2}[x.Choose(2, "ts-variant")]
		} else {
			tv = x.Choose(4, "ts-variant")
		}
		tsv := c01TsA
		if tv%2 == 1 {
			tsv = c01TsB
		}
		for i := 0; i < n; i++ {
			var id c01Ident
			if same {
				id = c01Idents[0]
			} else {
				id = c01Idents[x.Choose(len(c01Idents), "ident")]
			}
			ts := tsv[i]
			if tv >= 2 {
				ts = tsv[n-1-i]
			}
			j := i // index whose payload point i carries
			if same {
				j = [][]int{{1, 2, 1}, {1, 1, 2}, {2, 1, 1}, {1, 1, 1}}[pattern][i]
			}
			if twin {
				id, ts, j = c01Idents[i], 5, 1
			}
			pts[i] = data.Point{Type: id.typ, Key: id.key, Time: time.Unix(0, ts), Value: c01Vals[j], Text: c01Texts[j], Tombstone: c01Tombs[j], Origin: c01Origin[j], Data: c01Data[j]}
		}
		// permutation (Lehmer code)
		rest := make([]int, n)
		for i := range rest {
			rest[i] = i
		}
		var order []int
		for i := 0; i < n; i++ {
			k := x.Choose(len(rest), "perm")
			order = append(order, rest[k])
			rest = append(rest[:k:k], rest[k+1:]...)
		}
		// composition into batches
		var batches [][]int
		cur := []int{order[0]}
		for i := 1; i < n; i++ {
			if x.Choose(2, "cut") == 1 {
				batches = append(batches, cur)
				cur = nil
			}
			cur = append(cur, order[i])
		}
		batches = append(batches, cur)
		// one re-delivery of an earlier batch at a later position (0 = none)
		nb := len(batches)
		var redo [][2]int // (batch j, after batch k) with k>=j
		for j := 0; j < nb; j++ {
			for k := j; k < nb; k++ {
				redo = append(redo, [2]int{j, k})
			}
		}
		rd := x.Choose(1+len(redo), "redeliver")
		var deliveries [][]int
		for k := 0; k < nb; k++ {
			deliveries = append(deliveries, batches[k])
			if rd > 0 && redo[rd-1][1] == k {
				deliveries = append(deliveries, batches[redo[rd-1][0]])
			}
		}

		inst, err := sh.New(sh.Opts{})
		if err != nil {
			return mc.Outcome{Violation: "HARNESS: " + err.Error(), Key: "harness"}
		}
		defer inst.Close()
		root := inst.RootID
		if err := client.SendNode(inst.Nc, data.NodeEdge{ID: "n1", Parent: root, Type: "vtest"}, ""); err != nil {
			return mc.Outcome{Violation: "HARNESS: create node: " + err.Error(), Key: "harness"}
		}
		x.Step(1)
		base, _ := client.GetNodes(inst.Nc, root, "n1", "", true)
		if len(base) != 1 {
			return mc.Outcome{Violation: "HARNESS: node not readable after creation", Key: "harness"}
		}
		baseEdge := map[string]data.Point{}
		for _, p := range base[0].EdgePoints {
			baseEdge[c01ID(p.Type, normKey(p.Key))] = p
		}

		newest := map[string]data.Point{} // normalised identity -> newest delivered
		desc := func(b []int) string {
			var s []string
			for _, i := range b {
				s = append(s, fmt.Sprintf("(%s,%q)@%d", pts[i].Type, pts[i].Key, pts[i].Time.UnixNano()))
			}
			return "[" + strings.Join(s, " ") + "]"
		}
		flags := func(b []int) string {
			ks := map[string]map[string]bool{}
			concat := map[string]map[string]bool{}
			for _, i := range b {
				p := pts[i]
				if ks[p.Type] == nil {
					ks[p.Type] = map[string]bool{}
				}
				ks[p.Type][p.Key] = true
				c := p.Type + p.Key
				if concat[c] == nil {
					concat[c] = map[string]bool{}
				}
				concat[c][c01ID(p.Type, p.Key)] = true
			}
			f := ""
			for _, m := range ks {
				if m[""] && m["0"] {
					f += "/batch-has-key-empty-and-0"
				}
			}
			for _, m := range concat {
				if len(m) > 1 {
					f += "/type+key-concatenation-collides"
				}
			}
			return f
		}
		where := "node"
		if edge {
			where = "edge"
		}
		for di, b := range deliveries {
			batch := make(data.Points, len(b))
			for k, i := range b {
				batch[k] = pts[i]
				id := c01ID(pts[i].Type, normKey(pts[i].Key))
				if cur, ok := newest[id]; !ok || pts[i].Time.After(cur.Time) {
					newest[id] = pts[i]
				}
			}
			x.Logf("deliver %s %s", where, desc(b))
			if edge {
				err = client.SendEdgePoints(inst.Nc, "n1", root, batch, true)
			} else {
				err = client.SendNodePoints(inst.Nc, "n1", batch, true)
			}
			x.Step(1)
			if err != nil {
				return mc.Outcome{Violation: fmt.Sprintf("delivery %d %s refused: %v", di, desc(b), err), Key: "write-refused/" + where}
			}
			got, err := client.GetNodes(inst.Nc, root, "n1", "", true)
			if err != nil || len(got) != 1 {
				return mc.Outcome{Violation: fmt.Sprintf("read after delivery %d failed: %v (%d nodes)", di, err, len(got)), Key: "read-failed/" + where}
			}
			have := got[0].Points
			if edge {
				have = got[0].EdgePoints
			}
			// expected
			exp := map[string]data.Point{}
			if edge {
				for k, v := range baseEdge {
					exp[k] = v
				}
			}
			for k, v := range newest {
				v.Key = normKey(v.Key)
				exp[k] = v
			}
			seen := map[string]int{}
			cnt := map[string]int{}
			for _, p := range have {
				cnt[c01ID(p.Type, normKey(p.Key))]++
			}
			for _, p := range have {
				if id := c01ID(p.Type, normKey(p.Key)); cnt[id] > 1 {
					return mc.Outcome{Violation: fmt.Sprintf("after delivering %s: read returns %d points for identity (%s,%q): %v", desc(b), cnt[id], p.Type, normKey(p.Key), have), Key: "two-points-one-identity/" + where + flags(b)}
				}
			}
			for _, p := range have {
				id := c01ID(p.Type, normKey(p.Key))
				seen[id]++
				e, ok := exp[id]
				if !ok {
					return mc.Outcome{Violation: fmt.Sprintf("after %s: read returns a point (%s,%q) that was never delivered", desc(b), p.Type, p.Key), Key: "phantom-point/" + where}
				}
				if seen[id] > 1 {
					return mc.Outcome{Violation: fmt.Sprintf("after delivering %s: read returns %d points for identity (%s,%q): %v", desc(b), seen[id], p.Type, normKey(p.Key), have), Key: "two-points-one-identity/" + where + flags(b)}
				}
				if sh.Canon(p) != sh.Canon(e) {
					k := "wrong-point/" + where
					if !p.Time.Equal(e.Time) {
						k = "not-the-newest/" + where
					}
					return mc.Outcome{Violation: fmt.Sprintf("after delivering %s: identity (%s,%q) reads %s, newest delivered is %s", desc(b), p.Type, normKey(p.Key), sh.Canon(p), sh.Canon(e)), Key: k + flags(b)}
				}
			}
			for id, e := range exp {
				if seen[id] == 0 {
					return mc.Outcome{Violation: fmt.Sprintf("after delivering %s: identity (%s,%q) is missing from the read (have %v)", desc(b), e.Type, e.Key, have), Key: "point-lost/" + where + flags(b)}
				}
			}
		}
		var ids []string
		for k := range newest {
			ids = append(ids, k)
		}
		sort.Strings(ids)
		return mc.Outcome{Obs: fmt.Sprintf("%v|%d", ids, len(deliveries)), Trivial: n == 1}
	}
}

func checkC01(r *mc.Report, thorough bool) {
	n := 3
	if thorough {
		n = 4
	}
	rule := fmt.Sprintf("all point lists of 1..%d points over 6 identities (incl. (a,\"\")/(a,\"0\") and the (ab,\"\")/(a,b)/(a,b0)/(a0,\"\") concatenation collisions, raw and with the key default), 4 timestamp assignments (small / int64 extremes, rising / falling against the other fields), x all permutations x all compositions into batches x one re-delivery of any batch at any later position; read-back checked after every delivery", n)
	r.Explore(mc.Config{Name: fmt.Sprintf("node-points-n%d", n), Rule: rule, SelfCheckEvery: 5000}, c01Body(false, n))
	r.Explore(mc.Config{Name: fmt.Sprintf("edge-points-n%d", n), Rule: rule, SelfCheckEvery: 5000}, c01Body(true, n))
	r.Explore(mc.Config{Name: "node-points-empty-type-n3", Rule: "as node-points-n3 over the identities (\"\",\"\"), (a,\"\"), (\"\",b), (a,b): a point whose type is the empty string is an identity of its own", SelfCheckEvery: 5000}, c01BodyI(false, 3, c01EmptyType))
	r.Explore(mc.Config{Name: "edge-points-empty-type-n3", Rule: "the same for edge points", SelfCheckEvery: 5000}, c01BodyI(true, 3, c01EmptyType))
	r.Explore(mc.Config{Name: "node-points-nul-bytes-n2", Rule: "two points over identities whose type / key contain a NUL byte ((a\\x00b,c), (a,b\\x00c), (a\\x00,\"\"), (a,\\x000)): all orders, batch compositions and re-deliveries", SelfCheckEvery: 5000}, c01BodyI(false, 2, c01Nul))
	r.Explore(mc.Config{Name: "edge-points-nul-bytes-n2", Rule: "the same for edge points", SelfCheckEvery: 5000}, c01BodyI(true, 2, c01Nul))
	r.Explore(mc.Config{Name: "node-points-numeric-looking-keys-n2", Rule: "two points over the identities (a,01), (a,1), (a,-0), (a,1.0), (a,1e0), (a,\" 1\"): keys are strings, whatever they look like", SelfCheckEvery: 5000}, c01BodyI(false, 2, c01Numeric))
	r.Explore(mc.Config{Name: "edge-points-numeric-looking-keys-n2", Rule: "the same for edge points", SelfCheckEvery: 5000}, c01BodyI(true, 2, c01Numeric))
	for ti, tw := range c01Twins {
		name := fmt.Sprintf("twins-%d", ti)
		r.Explore(mc.Config{Name: "node-points-" + name, Rule: fmt.Sprintf("the two different identities %q and %q with ONE timestamp, value, text, tombstone count and origin (only the split between type and key differs): both orders, one or two batches, re-deliveries", tw[0], tw[1])}, c01BodyI(false, -2, tw))
		r.Explore(mc.Config{Name: "edge-points-" + name, Rule: "the same for edge points"}, c01BodyI(true, -2, tw))
	}
	sameRule := "three points of one identity of which two (any two) or all three carry the same value, text, data, tombstone and origin and differ only in their time; timestamps rising / falling with the index; all permutations x all compositions into batches x one re-delivery; read-back (time included) checked after every delivery"
	r.Explore(mc.Config{Name: "node-points-same-payload", Rule: sameRule}, c01Body(false, 3, true))
	r.Explore(mc.Config{Name: "edge-points-same-payload", Rule: sameRule}, c01Body(true, 3, true))
	sh.CleanupTemplate()
	r.Assume("bus = deterministic in-process stand-in for nats.go (inline mode), conformance-checked against the real client+server by /verif/realnats")
	r.Assume("timestamps distinct per identity, non-zero; values not NaN")
}

func init() {
	registerSharded("C01", "model_checking", checkC01)
	for _, n := range []int{3, 4} {
		bodies[fmt.Sprintf("C01/node-points-n%d", n)] = c01Body(false, n)
		bodies[fmt.Sprintf("C01/edge-points-n%d", n)] = c01Body(true, n)
	}
	bodies["C01/node-points-empty-type-n3"] = c01BodyI(false, 3, c01EmptyType)
	bodies["C01/edge-points-empty-type-n3"] = c01BodyI(true, 3, c01EmptyType)
	bodies["C01/node-points-nul-bytes-n2"] = c01BodyI(false, 2, c01Nul)
	bodies["C01/edge-points-nul-bytes-n2"] = c01BodyI(true, 2, c01Nul)
	bodies["C01/node-points-numeric-looking-keys-n2"] = c01BodyI(false, 2, c01Numeric)
	bodies["C01/edge-points-numeric-looking-keys-n2"] = c01BodyI(true, 2, c01Numeric)
	for ti, tw := range c01Twins {
		bodies[fmt.Sprintf("C01/node-points-twins-%d", ti)] = c01BodyI(false, -2, tw)
		bodies[fmt.Sprintf("C01/edge-points-twins-%d", ti)] = c01BodyI(true, -2, tw)
	}
	bodies["C01/node-points-same-payload"] = c01Body(false, 3, true)
	bodies["C01/edge-points-same-payload"] = c01Body(true, 3, true)
}
