package main

import (
	"sort"
	"fmt"
	"math"
	"reflect"

	"github.com/simpleiot/simpleiot/data"
	"verif/h/mc"
)

// Shared by C10 and C11: one wrapper configuration type per supported field
// kind, as a client would declare it.

type W[T any] struct {
	ID     string `node:"id"`
	Parent string `node:"parent"`
	V      T      `point:"v"`
	E      T      `edgepoint:"e"`
}

// Air: tags that are not camelCase (a key derived from the tag must be the tag, verbatim)
type Air struct {
	CO2  float64 `point:"CO2"`
	PM25 float64 `point:"PM25"`
	Temp float64 `point:"temp"`
}

// Opt: a flat struct one of whose fields is a pointer to a scalar (an optional setting)
type Opt struct {
	Name  string   `point:"name"`
	Limit *float64 `point:"limit"`
	Count int      `point:"count"`
}

func optOf(name string, limit float64, hasLimit bool, count int) func() *Opt {
	return func() *Opt {
		o := &Opt{Name: name, Count: count}
		if hasLimit {
			l := limit
			o.Limit = &l
		}
		return o
	}
}

type Flat struct {
	A int     `point:"a"`
	B string  `point:"b"`
	C float64 // key "c"
	D bool    `point:"d"`
}

type kind struct {
	name  string
	nvals int
	// C11: decode pts through api into a zero or populated target.
	// returns panic message, error, and a canonical rendering of the result.
	decode func(pts []data.Point, api int, populated bool) (pan string, err error, result string, unchanged bool)
	// C10
	roundtrip  func(i int, normalise bool) string
	diffmerge  func(i, j int, normalise bool) string
	diffmerge1 func(i, j int, normalise bool, share bool) string
	desc       func(i int) string
}

// eqv: deep equality identifying nil and empty slices/maps (the point
// encoding cannot tell them apart).
func eqv(a, b reflect.Value) bool {
	if a.Type() != b.Type() {
		return false
	}
	switch a.Kind() {
	case reflect.Slice:
		if a.Len() != b.Len() {
			return false
		}
		for i := 0; i < a.Len(); i++ {
			if !eqv(a.Index(i), b.Index(i)) {
				return false
			}
		}
		return true
	case reflect.Array:
		for i := 0; i < a.Len(); i++ {
			if !eqv(a.Index(i), b.Index(i)) {
				return false
			}
		}
		return true
	case reflect.Map:
		if a.Len() != b.Len() {
			return false
		}
		it := a.MapRange()
		for it.Next() {
			bv := b.MapIndex(it.Key())
			if !bv.IsValid() || !eqv(it.Value(), bv) {
				return false
			}
		}
		return true
	case reflect.Pointer:
		if a.IsNil() || b.IsNil() {
			return a.IsNil() == b.IsNil()
		}
		return eqv(a.Elem(), b.Elem())
	case reflect.Struct:
		for i := 0; i < a.NumField(); i++ {
			if !eqv(a.Field(i), b.Field(i)) {
				return false
			}
		}
		return true
	case reflect.Float32, reflect.Float64:
		x, y := a.Float(), b.Float()
		return x == y || (math.IsNaN(x) && math.IsNaN(y))
	default:
		return a.Interface() == b.Interface()
	}
}

func render(v any) string {
	return renderV(reflect.ValueOf(v))
}

func renderV(v reflect.Value) string {
	switch v.Kind() {
	case reflect.Pointer:
		if v.IsNil() {
			return "nil"
		}
		return "&" + renderV(v.Elem())
	case reflect.Slice, reflect.Array:
		s := "["
		for i := 0; i < v.Len(); i++ {
			if i > 0 {
				s += " "
			}
			if i >= 6 {
				s += fmt.Sprintf("..(%d)", v.Len())
				break
			}
			s += renderV(v.Index(i))
		}
		return s + "]"
	case reflect.Map:
		if v.Type().Elem().Kind() != reflect.Pointer {
			return fmt.Sprintf("%v", v.Interface()) // fmt sorts map keys
		}
		// pointer elements: by pointee, keys sorted
		if v.IsNil() {
			return "map[]"
		}
		keys := v.MapKeys()
		sort.Slice(keys, func(i, j int) bool { return fmt.Sprint(keys[i].Interface()) < fmt.Sprint(keys[j].Interface()) })
		s := "map["
		for i, k := range keys {
			if i > 0 {
				s += " "
			}
			s += fmt.Sprintf("%v:%s", k.Interface(), renderV(v.MapIndex(k)))
		}
		return s + "]"
	case reflect.Struct:
		s := "{"
		for i := 0; i < v.NumField(); i++ {
			if i > 0 {
				s += " "
			}
			s += renderV(v.Field(i))
		}
		return s + "}"
	case reflect.String:
		return fmt.Sprintf("%q", v.String())
	default:
		return fmt.Sprintf("%v", v.Interface())
	}
}

func normKeys(pts data.Points) data.Points {
	out := make(data.Points, len(pts))
	copy(out, pts)
	for i := range out {
		if out[i].Key == "" {
			out[i].Key = "0"
		}
	}
	return out
}

func mkKind[T any](name string, vals []func() T, populated func() T) kind {
	k := kind{name: name, nvals: len(vals)}
	k.desc = func(i int) string { return render(vals[i]()) }
	k.decode = func(pts []data.Point, api int, pop bool) (pan string, err error, result string, unchanged bool) {
		mk := func() *W[T] {
			w := &W[T]{ID: "n", Parent: "p"}
			if pop {
				w.V = populated()
				w.E = populated()
			}
			return w
		}
		w, ref := mk(), mk()
		pan = mc.Safely(func() {
			switch api {
			case 0:
				err = data.Decode(data.NodeEdgeChildren{NodeEdge: data.NodeEdge{ID: "n", Parent: "p", Points: pts}}, w)
			case 1:
				err = data.Decode(data.NodeEdgeChildren{NodeEdge: data.NodeEdge{ID: "n", Parent: "p", EdgePoints: pts}}, w)
			case 2:
				err = data.MergePoints("n", pts, w)
			case 3:
				err = data.MergeEdgePoints("n", "p", pts, w)
			}
		})
		if pan != "" {
			return
		}
		result = render(*w)
		unchanged = eqv(reflect.ValueOf(*w), reflect.ValueOf(*ref)) && reflect.DeepEqual(*w, *ref)
		return
	}
	k.roundtrip = func(i int, normalise bool) string {
		in := W[T]{ID: "n", Parent: "p", V: vals[i](), E: vals[i]()}
		var msg string
		if p := mc.Safely(func() {
			ne, err := data.Encode(in)
			if err != nil {
				msg = fmt.Sprintf("Encode(%s) error: %v", render(in), err)
				return
			}
			if normalise {
				ne.Points = normKeys(ne.Points)
				ne.EdgePoints = normKeys(ne.EdgePoints)
			}
			var out W[T]
			if err := data.Decode(data.NodeEdgeChildren{NodeEdge: ne}, &out); err != nil {
				msg = fmt.Sprintf("Decode(Encode(%s)) error: %v", render(in), err)
				return
			}
			if !eqv(reflect.ValueOf(in), reflect.ValueOf(out)) {
				msg = fmt.Sprintf("Decode(Encode(v)) != v: v=%s got %s (points %v)", render(in), render(out), ne.Points)
			}
		}); p != "" {
			return "panic: " + p
		}
		return msg
	}
	k.diffmerge = func(i, j int, normalise bool) string {
		if m := k.diffmerge1(i, j, normalise, false); m != "" {
			return m
		}
		if m := k.diffmerge1(i, j, normalise, true); m != "" {
			return m + " (the second value shares the backing array of the first)"
		}
		return ""
	}
	k.diffmerge1 = func(i, j int, normalise bool, share bool) string {
		a := W[T]{ID: "n", Parent: "p", V: vals[i]()}
		b := W[T]{ID: "n", Parent: "p", V: vals[j]()}
		// slices: when the second value is a prefix of the first or extends it, build it the way code usually
		// does — as a re-slice / an append into spare capacity of the SAME backing array (the values are what they
		// were; only the memory is shared); both forms are run for every pair
		if share {
			av, bv := reflect.ValueOf(&a.V).Elem(), reflect.ValueOf(&b.V).Elem()
			if av.Kind() == reflect.Slice && !av.IsNil() && !bv.IsNil() && av.Len() > 0 {
				n, mlen := bv.Len(), av.Len()
				shared := reflect.MakeSlice(av.Type(), mlen, mlen+n+1)
				reflect.Copy(shared, av)
				prefix := true
				for q := 0; q < n && q < mlen; q++ {
					if !reflect.DeepEqual(av.Index(q).Interface(), bv.Index(q).Interface()) {
						prefix = false
					}
				}
				if prefix {
					av.Set(shared)
					if n <= mlen {
						bv.Set(shared.Slice(0, n)) // shrink by re-slicing
					} else {
						ext := shared
						for q := mlen; q < n; q++ {
							ext = reflect.Append(ext, bv.Index(q)) // grows into the spare capacity
						}
						bv.Set(ext)
					}
				}
			}
		}
		var msg string
		if p := mc.Safely(func() {
			ne, err := data.Encode(a)
			if err != nil {
				msg = fmt.Sprintf("Encode(%s) error: %v", render(a), err)
				return
			}
			if normalise {
				ne.Points = normKeys(ne.Points)
			}
			var cur W[T]
			if err := data.Decode(data.NodeEdgeChildren{NodeEdge: ne}, &cur); err != nil {
				msg = fmt.Sprintf("Decode(Encode(a)) error: %v", err)
				return
			}
			diff, err := data.DiffPoints(a, b)
			if err != nil {
				msg = fmt.Sprintf("DiffPoints(%s,%s) error: %v", render(a), render(b), err)
				return
			}
			if normalise {
				diff = normKeys(diff)
			}
			if err := data.MergePoints("n", diff, &cur); err != nil {
				msg = fmt.Sprintf("MergePoints(diff %v) error: %v", diff, err)
				return
			}
			if !eqv(reflect.ValueOf(cur), reflect.ValueOf(b)) {
				msg = fmt.Sprintf("Merge(Decode(Encode(a)), Diff(a,b)) != b: a=%s b=%s got %s diff=%v", render(a.V), render(b.V), render(cur.V), diff)
			}
		}); p != "" {
			return "panic: " + p
		}
		return msg
	}
	return k
}

func cs[T any](vs ...T) []func() T {
	var out []func() T
	for _, v := range vs {
		v := v
		out = append(out, func() T { return v })
	}
	return out
}

func ptrs[T any](vs ...T) []func() *T {
	out := []func() *T{func() *T { return nil }}
	for _, v := range vs {
		v := v
		out = append(out, func() *T { x := v; return &x })
	}
	return out
}

func slicesOf[T any](vs ...[]T) []func() []T {
	var out []func() []T
	for _, v := range vs {
		v := v
		out = append(out, func() []T {
			if v == nil {
				return nil
			}
			return append([]T{}, v...)
		})
	}
	return out
}

// pmapsOf: maps with pointer elements, a fresh pointer per entry on every call
func pmapsOf[T any](vs ...map[string]T) []func() map[string]*T {
	var out []func() map[string]*T
	for _, v := range vs {
		v := v
		out = append(out, func() map[string]*T {
			if v == nil {
				return nil
			}
			m := map[string]*T{}
			for k, x := range v {
				x := x
				m[k] = &x
			}
			return m
		})
	}
	return out
}

func mapsOf[T any](vs ...map[string]T) []func() map[string]T {
	var out []func() map[string]T
	for _, v := range vs {
		v := v
		out = append(out, func() map[string]T {
			if v == nil {
				return nil
			}
			m := map[string]T{}
			for k, x := range v {
				m[k] = x
			}
			return m
		})
	}
	return out
}

// bigMap: n entries with keys <prefix>0 .. <prefix>(n-1)
func bigMap(prefix string, n int) map[string]int {
	m := make(map[string]int, n)
	for i := 0; i < n; i++ {
		m[fmt.Sprintf("%s%d", prefix, i)] = i + 1
	}
	return m
}

func seqInts(n int) []int {
	s := make([]int, n)
	for i := range s {
		s[i] = i*7 - 3
	}
	return s
}

// NamedKey: a map key type whose underlying type is string (e.g. a point-type or id type of a client)
type NamedKey string

const p53 = int64(1)<<53 - 1

var strAlpha = []string{"", "x", "0", "é✓😀", "a b\n", "\x00"}

// genSlices: all int slices of length <= maxLen over vals.
func genSlices(vals []int, maxLen int) [][]int {
	out := [][]int{nil}
	var rec func(cur []int)
	rec = func(cur []int) {
		if len(cur) > 0 {
			out = append(out, append([]int{}, cur...))
		}
		if len(cur) == maxLen {
			return
		}
		for _, v := range vals {
			rec(append(cur, v))
		}
	}
	rec(nil)
	return out
}

// genMaps: all maps over subsets of keys with values from vals.
func genMaps(keys []string, vals []int) []map[string]int {
	out := []map[string]int{nil}
	n := len(vals) + 1
	total := 1
	for range keys {
		total *= n
	}
	for code := 1; code < total; code++ {
		m := map[string]int{}
		c := code
		for _, k := range keys {
			if d := c % n; d > 0 {
				m[k] = vals[d-1]
			}
			c /= n
		}
		out = append(out, m)
	}
	return out
}

func allKinds() []kind { return allKindsT(false) }

func allKindsT(thorough bool) []kind {
	first := func(f []func() int) func() int { return f[len(f)-1] }
	_ = first
	ks := []kind{
		mkKind("bool", cs(false, true), func() bool { return true }),
		mkKind("int", cs(0, 1, -1, 255, int(p53), int(-p53), int(p53-1)), func() int { return 7 }),
		mkKind("int8", cs[int8](0, 1, -1, 127, -128), func() int8 { return 7 }),
		mkKind("int16", cs[int16](0, 1, -1, 32767, -32768), func() int16 { return 7 }),
		mkKind("int32", cs[int32](0, 1, -1, math.MaxInt32, math.MinInt32), func() int32 { return 7 }),
		mkKind("int64", cs[int64](0, 1, -1, p53, -p53, p53-1, 1<<52), func() int64 { return 7 }),
		mkKind("uint", cs[uint](0, 1, 255, uint(p53)), func() uint { return 7 }),
		mkKind("uint8", cs[uint8](0, 1, 255), func() uint8 { return 7 }),
		mkKind("uint16", cs[uint16](0, 1, 65535), func() uint16 { return 7 }),
		mkKind("uint32", cs[uint32](0, 1, math.MaxUint32), func() uint32 { return 7 }),
		mkKind("uint64", cs[uint64](0, 1, uint64(p53), 1<<52), func() uint64 { return 7 }),
		mkKind("float32", cs[float32](0, 1, -1.5, 0.1, math.MaxFloat32, math.SmallestNonzeroFloat32, float32(math.Inf(1)), float32(math.Inf(-1))), func() float32 { return 7 }),
		mkKind("float64", cs(0, 1, -1.5, 0.1, math.MaxFloat64, math.SmallestNonzeroFloat64, math.Inf(1), math.Inf(-1), float64(p53)+1), func() float64 { return 7 }),
		mkKind("string", cs(strAlpha...), func() string { return "seven" }),
		mkKind("*bool", ptrs(false, true), func() *bool { x := true; return &x }),
		mkKind("*int", ptrs(0, 1, -1, int(p53)), func() *int { x := 7; return &x }),
		mkKind("*float64", ptrs(0.0, 1.5, math.Inf(-1)), func() *float64 { x := 7.0; return &x }),
		mkKind("*string", ptrs("", "x", "0"), func() *string { x := "seven"; return &x }),
		mkKind("[]int", slicesOf(nil, []int{}, []int{0}, []int{5}, []int{0, 0}, []int{1, 2}, []int{2, 1}, []int{1, 2, 3}, []int{1, 0, 3}, []int{1, 2, 0}, []int{0, 0, 0}, seqInts(999), seqInts(1000)), func() []int { return []int{7, 8, 9} }),
		mkKind("[]string", slicesOf(nil, []string{""}, []string{"a"}, []string{"a", ""}, []string{"", "b"}, []string{"a", "b", "c"}, []string{"a", "", "c"}), func() []string { return []string{"s", "t", "u"} }),
		mkKind("[]float64", slicesOf(nil, []float64{0}, []float64{1.5}, []float64{0, 2.5}, []float64{math.Inf(1), 0, -1}), func() []float64 { return []float64{7, 8, 9} }),
		mkKind("[]bool", slicesOf(nil, []bool{false}, []bool{true}, []bool{true, false}, []bool{false, true}, []bool{true, true, false}), func() []bool { return []bool{true, true, true} }),
		mkKind("[]uint8", slicesOf(nil, []uint8{0}, []uint8{255}, []uint8{1, 2, 3}), func() []uint8 { return []uint8{7, 8, 9} }),
		mkKind("[3]int", cs([3]int{}, [3]int{1, 0, 0}, [3]int{0, 0, 3}, [3]int{1, 2, 3}, [3]int{-1, 2, int(p53)}), func() [3]int { return [3]int{7, 8, 9} }),
		mkKind("[2]string", cs([2]string{}, [2]string{"a", ""}, [2]string{"", "b"}, [2]string{"a", "b"}), func() [2]string { return [2]string{"s", "t"} }),
		mkKind("[7]bool", cs([7]bool{}, [7]bool{true}, [7]bool{false, false, false, false, false, false, true}, [7]bool{true, true, true, true, true, true, true}), func() [7]bool { return [7]bool{true, false, true} }),
		mkKind("map[string]int", mapsOf(bigMap("a", 1000), bigMap("b", 1000), bigMap("a", 600), nil, map[string]int{}, map[string]int{"a": 1}, map[string]int{"a": 0}, map[string]int{"a": 2}, map[string]int{"b": 1}, map[string]int{"a": 1, "b": 2}, map[string]int{"0": 5}, map[string]int{"0": 5, "1": 6}, map[string]int{"/": 1, "/home": 2}), func() map[string]int { return map[string]int{"k": 7, "0": 8} }),
		mkKind("map[string]string", mapsOf(nil, map[string]string{"a": "x"}, map[string]string{"a": ""}, map[string]string{"a": "y"}, map[string]string{"a": "x", "b": "y"}, map[string]string{"0": "z"}, map[string]string{"é": "✓"}), func() map[string]string { return map[string]string{"k": "seven", "0": "eight"} }),
		mkKind("map[string]bool", mapsOf(nil, map[string]bool{"a": true}, map[string]bool{"a": false}, map[string]bool{"a": true, "b": false}), func() map[string]bool { return map[string]bool{"k": true} }),
		mkKind("map[string]float64", mapsOf(nil, map[string]float64{"a": 1.5}, map[string]float64{"a": 0}, map[string]float64{"a": math.Inf(1), "b": -2}), func() map[string]float64 { return map[string]float64{"k": 7} }),
		mkKind("*struct(with pointer field)", []func() *Opt{func() *Opt { return nil }, optOf("x", 1.5, true, 3), optOf("x", 0, false, 3), optOf("", 0, false, 0), optOf("y", 0, true, 0)}, optOf("seven", 7, true, 7)),
		mkKind("*struct(capital tags)", []func() *Air{func() *Air { return nil }, func() *Air { return &Air{} }, func() *Air { return &Air{CO2: 415, PM25: 12.5} }, func() *Air { return &Air{Temp: 21} }}, func() *Air { return &Air{CO2: 7, PM25: 7, Temp: 7} }),
		mkKind("struct(capital tags)", cs(Air{}, Air{CO2: 415}, Air{PM25: 12.5, Temp: 21}), func() Air { return Air{7, 7, 7} }),
		mkKind("[]int(spare capacity)", slicesOf(nil, []int{1}, []int{1, 2, 3}), func() []int { s := make([]int, 2, 8); s[0], s[1] = 7, 8; return s }),
		mkKind("map[string]*int", pmapsOf(nil, map[string]int{"a": 1}, map[string]int{"a": 0}, map[string]int{"a": 1, "b": 2}, map[string]int{"a": 2, "b": 1, "c": 3}, map[string]int{"b": 2}), func() map[string]*int { x := 7; return map[string]*int{"k": &x} }),
		mkKind("map[string]*string", pmapsOf(nil, map[string]string{"a": "x"}, map[string]string{"a": "x", "b": "y"}, map[string]string{"a": "y", "b": ""}), func() map[string]*string { x := "seven"; return map[string]*string{"k": &x} }),
		mkKind("map[NamedKey]int", []func() map[NamedKey]int{func() map[NamedKey]int { return nil }, func() map[NamedKey]int { return map[NamedKey]int{"a": 1} }, func() map[NamedKey]int { return map[NamedKey]int{"a": 2, "b": 0} }, func() map[NamedKey]int { return map[NamedKey]int{"0": 5} }}, func() map[NamedKey]int { return map[NamedKey]int{"k": 7} }),
		mkKind("struct", cs(Flat{}, Flat{A: 1}, Flat{B: "x"}, Flat{C: 2.5}, Flat{D: true}, Flat{A: -1, B: "é", C: math.Inf(1), D: true}, Flat{A: int(p53), B: "0"}), func() Flat { return Flat{7, "seven", 7.5, true} }),
		mkKind("*struct", []func() *Flat{func() *Flat { return nil }, func() *Flat { return &Flat{} }, func() *Flat { return &Flat{A: 1} }, func() *Flat { return &Flat{B: "x", D: true} }, func() *Flat { return &Flat{A: -1, B: "é", C: 2.5, D: true} }}, func() *Flat { return &Flat{7, "seven", 7.5, true} }),
	}
	if thorough {
		ks = append(ks,
			mkKind("[]int/gen", slicesOf(genSlices([]int{0, 1, 2}, 4)...), func() []int { return []int{7, 8, 9} }),
			mkKind("map[string]int/gen", mapsOf(genMaps([]string{"0", "1", "a", "b"}, []int{0, 1, 2})...), func() map[string]int { return map[string]int{"k": 7} }),
		)
	}
	return ks
}
