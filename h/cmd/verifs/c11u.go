package main

import (
	"fmt"
	"math"
	"reflect"

	"github.com/simpleiot/simpleiot/data"
	"verif/h/mc"
)

// Targets Decode / Merge cannot write to: tagged fields that are unexported, and
// a struct handed over by value. The code answers "cannot set value" for these
// (setVal, the slice growth, the nil-map initialisation all check CanSet); the
// part checks that every path does — an error or no effect, never a panic.

type wu[T any] struct {
	ID     string `node:"id"`
	Parent string `node:"parent"`
	v      T      `point:"v"`
	e      T      `edgepoint:"e"`
}

type c11One struct {
	A int `point:"a"`
}

type c11uKind struct {
	name string
	// run decodes pts through api into a fresh target (unexported fields, or by value) and
	// returns the panic text and whether the target's rendering changed
	run func(pts []data.Point, api int, byValue bool) (pan string, changed bool, err error)
}

func mkU[T any](name string, populated func() T) c11uKind {
	return c11uKind{name: name, run: func(pts []data.Point, api int, byValue bool) (pan string, changed bool, err error) {
		call := func(target any) {
			switch api {
			case 0:
				err = data.Decode(data.NodeEdgeChildren{NodeEdge: data.NodeEdge{ID: "n", Parent: "p", Points: pts}}, target)
			case 1:
				err = data.Decode(data.NodeEdgeChildren{NodeEdge: data.NodeEdge{ID: "n", Parent: "p", EdgePoints: pts}}, target)
			case 2:
				err = data.MergePoints("n", pts, target)
			case 3:
				err = data.MergeEdgePoints("n", "p", pts, target)
			}
		}
		if byValue {
			w := W[T]{ID: "n", Parent: "p", V: populated(), E: populated()}
			pan = mc.Safely(func() { call(w) })
			return // (slices and maps share their storage with the copy: a change through it is not judged)
		}
		w := &wu[T]{ID: "n", Parent: "p", v: populated(), e: populated()}
		before := fmt.Sprintf("%v %v", reflect.ValueOf(w).Elem().Field(2), reflect.ValueOf(w).Elem().Field(3))
		pan = mc.Safely(func() { call(w) })
		after := fmt.Sprintf("%v %v", reflect.ValueOf(w).Elem().Field(2), reflect.ValueOf(w).Elem().Field(3))
		return pan, before != after, err
	}}
}

func c11uKinds() []c11uKind {
	return []c11uKind{
		mkU("int", func() int { return 7 }),
		mkU("string", func() string { return "s" }),
		mkU("*int", func() *int { x := 7; return &x }),
		mkU("*int(nil)", func() *int { return nil }),
		mkU("[]int", func() []int { return []int{7, 8, 9} }),
		mkU("[]int(nil)", func() []int { return nil }),
		mkU("[3]int", func() [3]int { return [3]int{7, 8, 9} }),
		mkU("map[string]int", func() map[string]int { return map[string]int{"k": 7} }),
		mkU("map[string]int(nil)", func() map[string]int { return nil }),
		mkU("map[string]*int", func() map[string]*int { x := 7; return map[string]*int{"k": &x} }),
		mkU("struct", func() Flat { return Flat{7, "seven", 7.5, true} }),
		mkU("*struct", func() *Flat { return &Flat{A: 7} }),
		mkU("*struct(nil)", func() *Flat { return nil }),
		mkU("*struct{a}", func() *c11One { return &c11One{A: 7} }), // (one field: a single tombstone removes the last live field)
		mkU("*struct{a}(nil)", func() *c11One { return nil }),
	}
}

type c11uCase struct {
	Kind    string  `json:"kind"`
	API     int     `json:"api"`
	ByValue bool    `json:"by_value"`
	Points  []c11Pt `json:"points"`
}

func c11uEval(k c11uKind, api int, byValue bool, pts []data.Point) (key, msg string) {
	how := "unexported tagged fields"
	if byValue {
		how = "a struct passed by value"
	}
	pan, changed, err := k.run(pts, api, byValue)
	if pan != "" {
		return "panic/unsettable/" + k.name, fmt.Sprintf("%s into %s of kind %s panicked: %s; points=%+v", apiNames[api], how, k.name, pan, c11Pts(pts))
	}
	if changed && err != nil {
		return "unsettable-changed-and-error/" + k.name, fmt.Sprintf("%s into %s of kind %s returned %v and changed the field; points=%+v", apiNames[api], how, k.name, err, c11Pts(pts))
	}
	return "", ""
}

func checkC11U(r *mc.Report) {
	kinds := c11uKinds()
	keys := []string{"", "0", "1", "2", "5", "-1", "x", "k", "a"}
	tombs := []int{0, 1, 2}
	var alpha []data.Point
	for _, key := range keys {
		for _, tomb := range tombs {
			alpha = append(alpha, data.Point{Type: "D", Key: key, Tombstone: tomb, Value: 3, Text: "t"})
		}
	}
	p := r.Part("unsettable-targets", fmt.Sprintf("%d field kinds behind UNEXPORTED tagged fields, and the same kinds in a struct passed BY VALUE, x api (4) x every point and every ordered pair of points over %d keys x %d tombstones: an error or no effect, never a panic (the code's own convention: 'cannot set value')", len(kinds), len(keys), len(tombs)))
	mc.ParallelFor(len(kinds), func(ki int) {
		k := kinds[ki]
		for api := 0; api < 4; api++ {
			for _, byValue := range []bool{false, true} {
				ev := func(pts []data.Point) {
					for i := range pts {
						pts[i].Type = declType(api)
					}
					p.Case(true)
					p.Step(1)
					if key, msg := c11uEval(k, api, byValue, pts); key != "" {
						p.Violation(key, msg, c11uCase{k.name, api, byValue, c11Pts(pts)})
					}
				}
				for _, a := range alpha {
					ev([]data.Point{a})
					for _, b := range alpha {
						ev([]data.Point{a, b})
					}
				}
			}
		}
	})
	p.Done()
}

func init() {
	replayers["C11/unsettable-targets"] = func(v *mc.Violation) string {
		c := reinput[c11uCase](v)
		for _, k := range c11uKinds() {
			if k.name == c.Kind {
				var pts []data.Point
				for _, p := range c.Points {
					pts = append(pts, data.Point{Type: p.Type, Key: p.Key, Value: math.Float64frombits(p.ValueBits), Text: p.Text, Tombstone: p.Tombstone})
				}
				if key, _ := c11uEval(k, c.API, c.ByValue, pts); key != "" {
					return "violation reproduced: " + key
				}
			}
		}
		return ""
	}
}
