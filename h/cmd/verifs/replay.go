package main

import (
	"strings"
	"encoding/json"
	"fmt"
	"os"

	"verif/h/mc"
)

// replayers re-execute one recorded violation without the explorer.
// key: property/part
var replayers = map[string]func(v *mc.Violation) (msg string){}

// bodies of Explore-based parts, for replaying a recorded choice sequence.
var bodies = map[string]mc.Body{}

func replay(path string) int {
	b, err := os.ReadFile(path)
	if err != nil {
		fmt.Fprintln(os.Stderr, "HARNESS-ERROR:", err)
		return 3
	}
	var f struct {
		Property  string       `json:"property"`
		Violation mc.Violation `json:"violation"`
	}
	if err := json.Unmarshal(b, &f); err != nil {
		fmt.Fprintln(os.Stderr, "HARNESS-ERROR:", err)
		return 3
	}
	if body, ok := bodies[f.Property+"/"+f.Violation.Part]; ok {
		out, hist := mc.Replay(body, f.Violation.Choices)
		for _, h := range hist {
			fmt.Println("  ", h)
		}
		if out.Violation != "" {
			fmt.Printf("VIOLATION property=%s replay=%s :: %s\n", f.Property, path, out.Violation)
			return 1
		}
		fmt.Println("replay: property held on this case")
		return 0
	}
	if f.Property == "C04" {
		c := reinput[c04Case](&f.Violation)
		os.Setenv("VERIF_C04_ONLY", fmt.Sprintf("%d,%s,%s,%d", c.History, c.Root, c.Mode, c.KillAt))
		tmp, _ := os.MkdirTemp(mc.ScratchDir(), "verif-replay-")
		defer os.RemoveAll(tmp)
		rep := mc.NewReport(tmp, "C04", "quick", "fault_enumeration")
		checkC04(rep, false)
		return rep.Finish()
	}
	if f.Property == "C09" && strings.HasPrefix(f.Violation.Part, "http-") {
		// the HTTP parts are plain enumerations of a few seconds: run them again as a whole
		tmp, _ := os.MkdirTemp(mc.ScratchDir(), "verif-replay-")
		defer os.RemoveAll(tmp)
		rep := mc.NewReport(tmp, "C09", "quick", "model_checking")
		if f.Violation.Part == "http-database-without-key" {
			c09OldDatabase(rep)
		} else {
			c09HTTP(rep, false)
		}
		return rep.Finish()
	}
	rp, ok := replayers[f.Property+"/"+f.Violation.Part]
	if !ok {
		fmt.Fprintf(os.Stderr, "HARNESS-ERROR: no replayer for %s/%s\n", f.Property, f.Violation.Part)
		return 3
	}
	msg := rp(&f.Violation)
	if msg != "" {
		fmt.Printf("VIOLATION property=%s replay=%s :: %s\n", f.Property, path, msg)
		return 1
	}
	fmt.Println("replay: property held on this case")
	return 0
}

// reinput converts the generic JSON input of a violation back to T.
func reinput[T any](v *mc.Violation) T {
	var t T
	b, _ := json.Marshal(v.Input)
	if err := json.Unmarshal(b, &t); err != nil {
		fmt.Fprintln(os.Stderr, "HARNESS-ERROR: replay input:", err)
		os.Exit(3)
	}
	return t
}
