package main

import (
	"fmt"
	"sync"
	"time"

	"github.com/simpleiot/simpleiot/modbus"
	"github.com/simpleiot/simpleiot/respreader"
	"verif/h/mc"
)

// chunkPort: the client's side of the packet pipe as a serial port that hands
// out a response in pieces of at most k bytes per Read, without blocking while
// data is available; the environment answer per piece is "at once" or "after
// lateBy" (a gap far below the response reader's chunk timeout).
type chunkPort struct {
	*pktEnd
	mu     sync.Mutex
	k      int
	late   func(i int) bool
	idx    int
	lateBy time.Duration
	sticky bool // keep the piece counter across Writes (server side: its Write is the answer)
}

func (c *chunkPort) set(k int, late func(i int) bool) {
	c.mu.Lock()
	c.k, c.late, c.idx = k, late, 0
	c.mu.Unlock()
}

func (c *chunkPort) Write(b []byte) (int, error) {
	c.mu.Lock()
	if !c.sticky {
		c.idx = 0
	}
	c.mu.Unlock()
	return c.pktEnd.Write(b)
}

func (c *chunkPort) Read(b []byte) (int, error) {
	c.mu.Lock()
	k := c.k
	c.mu.Unlock()
	if k > 0 && len(b) > k {
		b = b[:k]
	}
	n, err := c.pktEnd.Read(b)
	if n > 0 {
		c.mu.Lock()
		i, late := c.idx, c.late
		c.idx++
		c.mu.Unlock()
		if late != nil && late(i) {
			time.Sleep(c.lateBy)
		}
	}
	return n, err
}

type c19rrCase struct {
	Op      string `json:"op"`
	Addr    int    `json:"addr"`
	Count   int    `json:"count"`
	K       int    `json:"bytes_per_port_read"`
	Pattern string `json:"pattern"` // "now", "late", "late@i", "now@i"
	At      int    `json:"at"`
	// server side: 0 = the server reads the line directly; k > 0 = the server too sits behind a response
	// reader and its port hands the request out in pieces of at most k bytes (at once / each 1 ms late)
	ServerK    int  `json:"server_bytes_per_port_read,omitempty"`
	ServerLate bool `json:"server_pieces_late,omitempty"`
}

func (c c19rrCase) late() func(int) bool {
	switch c.Pattern {
	case "late":
		return func(int) bool { return true }
	case "late@i":
		return func(i int) bool { return i == c.At }
	case "now@i":
		return func(i int) bool { return i != c.At }
	}
	return nil
}

const c19rrChunkTimeout = 80 * time.Millisecond

type c19rrLink struct {
	port   *chunkPort
	client *modbus.Client
	server *modbus.Server
	regs   *modbus.Regs
	ref    *refRegs
	spec   regMapSpec
	done   chan struct{}
}

func newRRLink(spec regMapSpec, serverK int, serverLate bool) *c19rrLink {
	l := &c19rrLink{regs: spec.build(), ref: spec.ref(), spec: spec, done: make(chan struct{})}
	c, s := newPktPipe()
	l.port = &chunkPort{pktEnd: c, lateBy: time.Millisecond}
	// as node/modbus.go and cmd/modbus do: the serial port behind a response reader
	rr := respreader.NewReadWriteCloser(l.port, 5*time.Second, c19rrChunkTimeout)
	l.client = modbus.NewClient(modbus.NewRTU(rr), 0)
	if serverK > 0 {
		sp := &chunkPort{pktEnd: s, lateBy: time.Millisecond, k: serverK}
		if serverLate {
			sp.late = func(int) bool { return true }
		}
		sp.sticky = true
		l.server = modbus.NewServer(1, modbus.NewRTU(respreader.NewReadWriteCloser(sp, 2*time.Second, c19rrChunkTimeout)), l.regs, 0)
	} else {
		l.server = modbus.NewServer(1, modbus.NewRTU(s), l.regs, 0)
	}
	go l.server.Listen(func(error) {}, func() {}, func() { close(l.done) })
	return l
}

func (l *c19rrLink) close() {
	go l.server.Close()
	l.client.Close()
	select {
	case <-l.done:
	case <-time.After(5 * time.Second):
	}
}

// one transaction; "" when the client returned exactly what the server holds
func (l *c19rrLink) do(c c19rrCase) (key, detail string) {
	l.port.set(c.K, c.late())
	var fc byte
	var bits []bool
	var regs []uint16
	var err error
	switch c.Op {
	case "ReadCoils":
		fc = 1
		bits, err = l.client.ReadCoils(1, uint16(c.Addr), uint16(c.Count))
	case "ReadDiscreteInputs":
		fc = 2
		bits, err = l.client.ReadDiscreteInputs(1, uint16(c.Addr), uint16(c.Count))
	case "ReadHoldingRegs":
		fc = 3
		regs, err = l.client.ReadHoldingRegs(1, uint16(c.Addr), uint16(c.Count))
	default:
		fc = 4
		regs, err = l.client.ReadInputRegs(1, uint16(c.Addr), uint16(c.Count))
	}
	want := refProcess(fc, be(c.Addr, c.Count), l.ref)
	if want.kind != kNormal {
		return "", ""
	}
	if err != nil {
		return "legal-read-failed-through-response-reader/" + c.Op, fmt.Sprintf("%s(addr=%d,count=%d), response handed out %d bytes per port read (%s): server holds the data but the client returned error: %v", c.Op, c.Addr, c.Count, c.K, c.Pattern, err)
	}
	if fc <= 2 {
		if len(bits) != c.Count {
			return "wrong-number-of-values-through-response-reader/" + c.Op, fmt.Sprintf("%s(addr=%d,count=%d) returned %d values", c.Op, c.Addr, c.Count, len(bits))
		}
		for i := range bits {
			if w := want.data[1+i/8]&(1<<(i%8)) != 0; bits[i] != w {
				return "wrong-value-through-response-reader/" + c.Op, fmt.Sprintf("%s(addr=%d,count=%d), %d bytes per port read (%s): value %d is %v, server holds %v", c.Op, c.Addr, c.Count, c.K, c.Pattern, i, bits[i], w)
			}
		}
		return "", ""
	}
	if len(regs) != c.Count {
		return "wrong-number-of-values-through-response-reader/" + c.Op, fmt.Sprintf("%s(addr=%d,count=%d) returned %d values", c.Op, c.Addr, c.Count, len(regs))
	}
	for i := range regs {
		if w := uint16(u16(want.data[1+2*i:])); regs[i] != w {
			return "wrong-value-through-response-reader/" + c.Op, fmt.Sprintf("%s(addr=%d,count=%d), %d bytes per port read (%s): value %d is %#x, server holds %#x", c.Op, c.Addr, c.Count, c.K, c.Pattern, i, regs[i], w)
		}
	}
	return "", ""
}

var c19rrSpec = regMapSpec{Name: "dense0-255/pattern", Addrs: seqU16(0, 256), Init: 0xa5c3}

// c19rrAttempt runs one case on a fresh link up to 3 times: the response reader
// frames by real time, so one failure under machine load is not believed.
func c19rrAttempt(c c19rrCase) (key, detail string) {
	for try := 0; try < 3; try++ {
		l := newRRLink(c19rrSpec, c.ServerK, c.ServerLate)
		key, detail = l.do(c)
		l.close()
		if key == "" {
			return
		}
	}
	return
}

func c19rrCases(thorough bool) []c19rrCase {
	type rd struct {
		op   string
		addr int
		cnt  int
		resp int // response frame bytes
	}
	rds := []rd{{"ReadHoldingRegs", 0, 1, 7}, {"ReadInputRegs", 3, 14, 33}, {"ReadHoldingRegs", 5, 16, 37}, {"ReadHoldingRegs", 0, 61, 127}, {"ReadInputRegs", 1, 62, 129}, {"ReadHoldingRegs", 131, 125, 255}, {"ReadCoils", 0, 2000, 255}, {"ReadDiscreteInputs", 3, 9, 7}}
	ks := []int{1, 8, 32, 127, 128}
	if thorough {
		ks = []int{1, 2, 3, 5, 8, 16, 31, 32, 33, 64, 100, 127, 128}
	}
	var out []c19rrCase
	for _, q := range rds {
		for _, k := range ks {
			chunks := (q.resp + k - 1) / k
			out = append(out, c19rrCase{Op: q.op, Addr: q.addr, Count: q.cnt, K: k, Pattern: "now"}, c19rrCase{Op: q.op, Addr: q.addr, Count: q.cnt, K: k, Pattern: "late"})
			if chunks > 1 && (chunks <= 8 || thorough && chunks <= 32) {
				for i := 0; i < chunks; i++ {
					out = append(out, c19rrCase{Op: q.op, Addr: q.addr, Count: q.cnt, K: k, Pattern: "late@i", At: i}, c19rrCase{Op: q.op, Addr: q.addr, Count: q.cnt, K: k, Pattern: "now@i", At: i})
				}
			}
		}
	}
	// the server behind a response reader as well (node/modbus.go wires both roles alike)
	for _, q := range []rd{rds[0], rds[3], rds[5], rds[6]} {
		for _, sk := range []int{1, 3, 8} {
			for _, sl := range []bool{false, true} {
				out = append(out, c19rrCase{Op: q.op, Addr: q.addr, Count: q.cnt, K: 32, Pattern: "now", ServerK: sk, ServerLate: sl})
			}
		}
	}
	return out
}

func checkC19RR(r *mc.Report, thorough bool) {
	p := r.Part("rtu-through-response-reader", "real Client over RTU behind respreader.ReadWriteCloser (as node/modbus.go and cmd/modbus wire the serial port) <-> real Server.Listen: 8 reads with response frames of 7..255 bytes, the port handing the response out in pieces of at most k bytes per Read (k alphabet), each piece either at once or after 1 ms: all-at-once, all-late, and (up to 8 pieces; thorough 32) every single-piece departure from either; the client must return exactly what the server holds; 24 more transactions with the server behind a response reader too (request handed out in pieces of 1 / 3 / 8 bytes). Transactions and delivery patterns are enumerated; goroutine scheduling inside the response reader is the runtime's (a failure is believed only when it repeats on 3 fresh links)")
	cases := c19rrCases(thorough)
	var mu sync.Mutex
	mc.ParallelFor(len(cases), func(i int) {
		key, detail := c19rrAttempt(cases[i])
		mu.Lock()
		defer mu.Unlock()
		p.Case(true)
		p.Step(1)
		if key != "" {
			p.Violation(key, detail, cases[i])
		}
	})
	p.Done()
	r.AddSample(map[string]any{"part": "rtu-through-response-reader", "case": cases[len(cases)-1]})
}

func init() {
	replayers["C19/rtu-through-response-reader"] = func(v *mc.Violation) string {
		c := reinput[c19rrCase](v)
		if key, _ := c19rrAttempt(c); key != "" {
			return "violation reproduced: " + key
		}
		return ""
	}
}
