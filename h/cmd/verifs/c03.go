package main

import (
	"math"
	"fmt"
	"sort"
	"strings"
	"sync"
	"time"

	"github.com/simpleiot/simpleiot/client"
	"github.com/simpleiot/simpleiot/data"
	"verif/h/mc"
	"verif/h/sh"
)

// C03: stored hashes always equal the Merkle hash of current content.
// Explicit-state search over histories of accepted writes on a universe
// root + {A,B,C} with forward edges only (cycles belong to C05).

type c03Op struct {
	kind   string // np (node point), ep (edge point: tombstone/role), maint
	node   string
	parent string
	typ    string
	ts     int64
	val    float64
	text   string
	// twin: the batch carries the identity twice, under both spellings of key zero: (typ, "")@ts and (typ, "0")@ts+1
	twin bool
	tomb int // point-level tombstone count (a removed entry that keeps its text)
}

func (o c03Op) String() string {
	if o.twin {
		return fmt.Sprintf("%s batch %s%s %s[key \"\"]@%d=%v + %s[key \"0\"]@%d=%v", map[string]string{"np": "nodepoint", "ep": "edgepoint"}[o.kind], map[bool]string{true: o.parent + ">", false: ""}[o.kind == "ep"], o.node, o.typ, o.ts, o.val, o.typ, o.ts+1, o.val+1)
	}
	if o.tomb != 0 {
		return fmt.Sprintf("%s %s%s %s@%d=%v text=%q tombstone-count=%d", map[string]string{"np": "nodepoint", "ep": "edgepoint"}[o.kind], map[bool]string{true: o.parent + ">", false: ""}[o.kind == "ep"], o.node, o.typ, o.ts, o.val, o.text, o.tomb)
	}
	switch o.kind {
	case "np":
		if o.text != "" {
			return fmt.Sprintf("nodepoint %s %s@%d=%v text=(%d bytes)...%s", o.node, o.typ, o.ts, o.val, len(o.text), o.text[len(o.text)-1:])
		}
		return fmt.Sprintf("nodepoint %s %s@%d=%v", o.node, o.typ, o.ts, o.val)
	case "ep":
		return fmt.Sprintf("edgepoint %s>%s %s@%d=%v", o.parent, o.node, o.typ, o.ts, o.val)
	}
	return o.kind
}

var c03Nodes = []string{"A", "B", "C"}

// c03Long: 300 bytes (file contents, certificates and the like are stored as point text)
var c03Long = strings.Repeat("0123456789abcdefghijklmnopqrstuvwxyz ", 8) + "tail"

func c03Ops(root string) []c03Op {
	var ops []c03Op
	for _, n := range append([]string{root}, c03Nodes...) {
		for _, ts := range []int64{1, 2} {
			ops = append(ops, c03Op{kind: "np", node: n, typ: "v", ts: ts, val: float64(ts) * 1.5})
		}
		// same timestamp as an earlier write, other value: the store accepts it (ties overwrite)
		// ... and two rewrites that carry a long text and differ from each other only in its last byte
		ops = append(ops, c03Op{kind: "np", node: n, typ: "v", ts: 2, val: 99, text: c03Long + "a"})
		ops = append(ops, c03Op{kind: "np", node: n, typ: "v", ts: 2, val: 99, text: c03Long + "b"})
		// negative zero: equal to 0 as a value, another bit pattern (and the database keeps one zero only)
		if n == root || n == "C" {
			ops = append(ops, c03Op{kind: "np", node: n, typ: "v", ts: 2, val: math.Copysign(0, -1)})
		}
		// a removed entry: point-level tombstone count 1, the text kept
		if n == "A" || n == "C" {
			ops = append(ops, c03Op{kind: "np", node: n, typ: "v", ts: 2, val: 7, text: "removed entry", tomb: 1})
		}
		// one batch with both spellings of key zero
		if n == root || n == "B" {
			ops = append(ops, c03Op{kind: "np", node: n, typ: "v", ts: 2, val: 41, twin: true})
		}
	}
	ops = append(ops, c03Op{kind: "ep", node: "A", parent: root, typ: "role", ts: 2, val: math.Copysign(0, -1)})
	ops = append(ops, c03Op{kind: "ep", node: "A", parent: root, typ: "role", ts: 2, val: 41, twin: true})
	ops = append(ops, c03Op{kind: "ep", node: "A", parent: root, typ: "role", ts: 2, val: 7, text: "removed entry", tomb: 1})
	parents := map[string][]string{"A": {root}, "B": {root, "A"}, "C": {root, "A", "B"}}
	for _, n := range c03Nodes {
		for _, p := range parents[n] {
			for _, ts := range []int64{1, 2} {
				for _, v := range []float64{0, 1} {
					ops = append(ops, c03Op{kind: "ep", node: n, parent: p, typ: data.PointTypeTombstone, ts: ts, val: v})
				}
			}
			for _, ts := range []int64{1, 2} {
				ops = append(ops, c03Op{kind: "ep", node: n, parent: p, typ: "role", ts: ts, val: float64(ts)})
			}
			ops = append(ops, c03Op{kind: "ep", node: n, parent: p, typ: "role", ts: 2, val: 77})
		}
	}
	return ops
}

// c03Model tracks what the store must hold (newest wins) so that hidden state
// (points of nodes without any edge) is part of the state key.
type c03Model struct {
	np    map[string]map[string]data.Point // node -> type -> point
	edges map[string]map[string]data.Point // "p>n" -> type -> point
}

func (m *c03Model) key() string {
	var s []string
	for n, ps := range m.np {
		for t, p := range ps {
			s = append(s, fmt.Sprintf("N%s/%s@%d=%v/%d%s", n, t, p.Time.UnixNano(), p.Value, len(p.Text), p.Text[max(0, len(p.Text)-1):]))
		}
	}
	for e, ps := range m.edges {
		for t, p := range ps {
			s = append(s, fmt.Sprintf("E%s/%s@%d=%v", e, t, p.Time.UnixNano(), p.Value))
		}
		s = append(s, "E"+e)
	}
	sort.Strings(s)
	return strings.Join(s, ",")
}

var c03Seeds = [][]c03Op{
	nil,
	// diamond root>A>C, root>B>C with a point on C
	{{kind: "ep", node: "A", parent: "R", typ: data.PointTypeTombstone, ts: 1}, {kind: "ep", node: "B", parent: "R", typ: data.PointTypeTombstone, ts: 1},
		{kind: "ep", node: "C", parent: "A", typ: data.PointTypeTombstone, ts: 1}, {kind: "ep", node: "C", parent: "B", typ: data.PointTypeTombstone, ts: 1}, {kind: "np", node: "C", typ: "v", ts: 1, val: 1.5}},
	// deleted mirror: A under root, B under root and under A (deleted there)
	{{kind: "ep", node: "A", parent: "R", typ: data.PointTypeTombstone, ts: 1}, {kind: "ep", node: "B", parent: "R", typ: data.PointTypeTombstone, ts: 1},
		{kind: "ep", node: "B", parent: "A", typ: data.PointTypeTombstone, ts: 1, val: 1}, {kind: "np", node: "B", typ: "v", ts: 1, val: 1.5}},
	// populated subtree that is not attached yet: B>C exists with points, B has no parent
	{{kind: "np", node: "C", typ: "v", ts: 1, val: 1.5}, {kind: "ep", node: "C", parent: "B", typ: data.PointTypeTombstone, ts: 1}, {kind: "np", node: "B", typ: "v", ts: 1, val: 1.5}},
}

// history-independent hashes: content -> snapshot with hashes (per process)
var c03Seen sync.Map

func c03Body(depths []int) mc.Body {
	return func(x *mc.X) mc.Outcome {
		inst, err := sh.New(sh.Opts{})
		if err != nil {
			return mc.Outcome{Violation: "HARNESS: " + err.Error(), Key: "harness"}
		}
		defer inst.Close()
		root := inst.RootID
		ops := c03Ops(root)
		universe := append([]string{root}, c03Nodes...)
		m := &c03Model{np: map[string]map[string]data.Point{}, edges: map[string]map[string]data.Point{}}

		apply := func(o c03Op) (accepted bool, err error) {
			if o.parent == "R" {
				o.parent = root
			}
			p := data.Point{Type: o.typ, Time: time.Unix(0, o.ts), Value: o.val, Text: o.text, Tombstone: o.tomb}
			batch := data.Points{p}
			if o.twin {
				p = data.Point{Type: o.typ, Key: "0", Time: time.Unix(0, o.ts+1), Value: o.val + 1}
				batch = append(batch, p) // (p, the newer one, is what the store must hold afterwards)
			}
			switch o.kind {
			case "np":
				err = client.SendNodePoints(inst.Nc, o.node, append(data.Points{}, batch...), true)
				if err == nil {
					if m.np[o.node] == nil {
						m.np[o.node] = map[string]data.Point{}
					}
					if cur, ok := m.np[o.node][o.typ]; !ok || !p.Time.Before(cur.Time) {
						m.np[o.node][o.typ] = p
					}
				}
			case "ep":
				e := o.parent + ">" + o.node
				pts := append(data.Points{}, batch...)
				if m.edges[e] == nil {
					if o.typ != data.PointTypeTombstone {
						return false, nil // other edge points only on existing edges
					}
					pts = append(pts, data.Point{Type: data.PointTypeNodeType, Text: "vtest"})
				}
				err = client.SendEdgePoints(inst.Nc, o.node, o.parent, pts, true)
				if err == nil {
					if m.edges[e] == nil {
						m.edges[e] = map[string]data.Point{}
					}
					if cur, ok := m.edges[e][o.typ]; !ok || !p.Time.Before(cur.Time) {
						m.edges[e][o.typ] = p
					}
				}
			}
			return err == nil, err
		}

		check := func(what string) *mc.Outcome {
			snap, err := inst.Snap(universe)
			if err != nil {
				return &mc.Outcome{Violation: "read failed after " + what + ": " + err.Error(), Key: "read-failed"}
			}
			shape := c03Shape(snap, root)
			if d := snap.CheckHashes(); d != "" {
				return &mc.Outcome{Violation: fmt.Sprintf("after %s: %s\nstate:\n%s", what, d, snap.String()), Key: "hash-mismatch/" + shape}
			}
			// differential: same content => same hashes whatever the history
			if prev, loaded := c03Seen.LoadOrStore(snap.Content(), snap.String()); loaded && prev.(string) != snap.String() {
				return &mc.Outcome{Violation: fmt.Sprintf("after %s: equal content, different hashes:\n%s\nvs\n%s", what, prev, snap.String()), Key: "history-dependent-hash/" + shape}
			}
			// a store verification finds nothing to repair
			msg, err := inst.Nc.Request("admin.storeMaint", nil, time.Second)
			if err != nil {
				return &mc.Outcome{Violation: fmt.Sprintf("after %s: admin.storeMaint not answered: %v", what, err), Key: "maint-failed"}
			}
			if len(msg.Data) > 0 {
				return &mc.Outcome{Violation: fmt.Sprintf("after %s: admin.storeMaint failed: %s", what, msg.Data), Key: "maint-failed"}
			}
			snap2, _ := inst.Snap(universe)
			if snap2.String() != snap.String() {
				return &mc.Outcome{Violation: fmt.Sprintf("after %s: store maintenance repaired hashes:\nbefore\n%safter\n%s", what, snap.String(), snap2.String()), Key: "maint-repaired-something/" + shape}
			}
			return nil
		}

		si := x.Choose(len(c03Seeds), "seed")
		seed := c03Seeds[si]
		depth := depths[si]
		for _, o := range seed {
			if ok, err := apply(o); !ok {
				return mc.Outcome{Violation: fmt.Sprintf("HARNESS: seed op %v refused: %v", o, err), Key: "harness"}
			}
			x.Step(1)
		}
		if len(seed) > 0 {
			x.Logf("seed: %v", seed)
			if !x.Replaying() {
				if v := check(fmt.Sprintf("seed %v", seed)); v != nil {
					return *v
				}
			}
		}
		for d := 0; d < depth; d++ {
			o := ops[x.Choose(len(ops), "op")]
			ok, err := apply(o)
			if err != nil {
				return mc.Outcome{Violation: fmt.Sprintf("legal write %v refused: %v", o, err), Key: "legal-write-refused/" + o.kind}
			}
			if !ok {
				return mc.Outcome{Trivial: true, Obs: "inapplicable"}
			}
			x.Step(1)
			x.Logf("%v", o)
			// states strictly inside the replayed prefix were checked by the execution that first reached them
			if !x.Replaying() {
				if v := check(o.String()); v != nil {
					return *v
				}
			}
			x.StateKey(fmt.Sprintf("%d|%s", depth-d-1, m.key()))
		}
		return mc.Outcome{Obs: m.key()}
	}
}

// c03Shape names the graph shape for violation classes.
func c03Shape(s sh.Snapshot, root string) string {
	parents := map[string]int{}
	for _, e := range s.Edges {
		if e.Down != root && (e.Up == root || e.Up == "A" || e.Up == "B" || e.Up == "C") {
			parents[e.Down]++
		}
	}
	for _, n := range parents {
		if n > 1 {
			return "node-with-several-parents"
		}
	}
	return "tree"
}

func checkC03(r *mc.Report, thorough bool) {
	depths, name := []int{3, 2, 2, 2}, "histories-quick"
	if thorough {
		depths, name = []int{4, 3, 3, 3}, "histories-thorough"
	}
	r.Explore(mc.Config{Name: name, Prune: true, SplitDepth: 3,
		Rule: fmt.Sprintf("explicit-state search: 4 seed states (empty, diamond, deleted mirror, detached populated subtree) x all histories of %v operations (per seed) over 54 operations (node points on root/A/B/C at 2 timestamps = new/newer/stale/duplicate, plus an equal-timestamp rewrite with another value; tombstone set/clear and role points on the 6 forward edges among root,A,B,C = chains, mirrors, diamonds, edge above populated subtree, points-first and edge-first); states = store content incl. points of unattached nodes + remaining depth; after EVERY operation all hashes are recomputed independently, compared across histories, and storeMaint must change nothing", depths)},
		c03Body(depths))
	sh.CleanupTemplate()
	r.Assume("hash definition: CRC-32/IEEE over time(LE ns)||type||key||text||value bits(LE), XOR of node points, edge points and child edge hashes (docs/ref/sync.md); recomputed by the harness without calling CalcHash/CRC")
	r.Assume("cyclic edges excluded (C05); newest-wins content model taken from C01")
}

func init() {
	mc.CrossExecutionKeys = append(mc.CrossExecutionKeys, "history-dependent-hash")
	registerSharded("C03", "model_checking", checkC03)
	bodies["C03/histories-quick"] = c03Body([]int{3, 2, 2, 2})
	bodies["C03/histories-thorough"] = c03Body([]int{4, 3, 3, 3})
}
