package main

import (
	"fmt"
	"sort"
	"strings"
	"time"

	"github.com/simpleiot/simpleiot/client"
	"github.com/simpleiot/simpleiot/data"
	"verif/h/mc"
	"verif/h/sh"
)

// C06: every accepted change is rebroadcast to every live ancestor, and only
// to ancestors. All DAG shapes over root + k nodes (edges absent / live /
// tombstoned), every node, every kind of write.

type c06Msg struct {
	subject string
	pts     string
}

func c06Body(k int, tomb bool, under ...bool) mc.Body {
	return func(x *mc.X) mc.Outcome {
		names := []string{"N1", "N2", "N3", "N4", "N5"}[:k]
		type edge struct{ p, c string }
		var cand []edge
		for i := 0; i < k; i++ {
			cand = append(cand, edge{"R", names[i]})
		}
		for i := 0; i < k; i++ {
			for j := i + 1; j < k; j++ {
				cand = append(cand, edge{names[i], names[j]})
			}
		}
		// under: a node D outside the tree with the instance root (and N1) mirrored below it
		withD := len(under) > 0 && under[0]
		if withD {
			cand = append(cand, edge{"D", "R"}, edge{"D", names[0]})
		}
		state := map[edge]int{} // 0 absent 1 live 2 deleted
		arity := 2
		if tomb {
			arity = 3
		}
		nEdges := 0
		for _, e := range cand {
			ar := arity
			if e.c == "R" {
				ar = 2 // the store refuses a tombstone on any edge above the instance root
			}
			state[e] = x.Choose(ar, "edge "+e.p+">"+e.c)
			if state[e] > 0 {
				nEdges++
			}
		}
		inst, err := sh.New(sh.Opts{})
		if err != nil {
			return mc.Outcome{Violation: "HARNESS: " + err.Error(), Key: "harness"}
		}
		defer inst.Close()
		root := inst.RootID
		id := func(n string) string {
			if n == "R" {
				return root
			}
			return n
		}
		clock := int64(100)
		tick := func() time.Time { clock++; return time.Unix(0, clock) }
		// a node with points but no edge at all exists too (detached)
		var shape []string
		for _, e := range cand {
			if state[e] == 0 {
				continue
			}
			v := 0.0
			if state[e] == 2 {
				v = 1
			}
			err := client.SendEdgePoints(inst.Nc, id(e.c), id(e.p), data.Points{{Type: data.PointTypeTombstone, Value: v, Time: tick()}, {Type: data.PointTypeNodeType, Text: "vtest"}}, true)
			x.Step(1)
			if err != nil {
				return mc.Outcome{Violation: fmt.Sprintf("HARNESS: building shape: edge %s>%s: %v", e.p, e.c, err), Key: "harness"}
			}
			shape = append(shape, fmt.Sprintf("%s>%s%s", e.p, e.c, map[int]string{1: "", 2: "(deleted)"}[state[e]]))
		}
		x.Logf("shape: %s", strings.Join(shape, " "))

		var seen []c06Msg
		inst.Bus.Spy(func(subject, reply string, d []byte) {
			if strings.HasPrefix(subject, "up.") {
				pts, err := data.PbDecodePoints(d)
				s := "undecodable"
				if err == nil {
					s = sh.CanonPoints(pts)
				}
				seen = append(seen, c06Msg{subject, s})
			}
		})

		// reference reachability. parents(n, any): ids of parents; the instance root's parent is the sentinel "root".
		parents := func(n string, any bool) []string {
			var out []string
			if n == root {
				out = []string{"root"}
			}
			for _, e := range cand {
				if id(e.c) == n && (state[e] == 1 || (any && state[e] == 2)) {
					out = append(out, id(e.p))
				}
			}
			return out
		}
		ancestors := func(n string, any bool) map[string]bool {
			out := map[string]bool{}
			var walk func(m string)
			walk = func(m string) {
				for _, p := range parents(m, any) {
					if !out[p] {
						out[p] = true
						if p != "root" {
							walk(p)
						}
					}
				}
			}
			walk(n)
			return out
		}
		verify := func(what, class string, pts data.Points, expected map[string]bool) *mc.Outcome {
			want := sh.CanonPoints(pts)
			got := map[string]bool{}
			for _, m := range seen {
				got[m.subject] = true
				if m.pts != want {
					return &mc.Outcome{Violation: fmt.Sprintf("shape {%s}: %s: rebroadcast on %s carries %s, request carried %s", strings.Join(shape, " "), what, m.subject, m.pts, want), Key: "payload-differs/" + class}
				}
			}
			var missing, extra []string
			for s := range expected {
				if !got[s] {
					missing = append(missing, s)
				}
			}
			for s := range got {
				if !expected[s] {
					extra = append(extra, s)
				}
			}
			sort.Strings(missing)
			sort.Strings(extra)
			if len(missing) > 0 {
				return &mc.Outcome{Violation: fmt.Sprintf("shape {%s}: %s: not rebroadcast on %v (seen %v)", strings.Join(shape, " "), what, missing, keys(got)), Key: "ancestor-not-told/" + class}
			}
			if len(extra) > 0 {
				return &mc.Outcome{Violation: fmt.Sprintf("shape {%s}: %s: rebroadcast on non-ancestor subjects %v (expected only %v)", strings.Join(shape, " "), what, extra, keys(expected)), Key: "non-ancestor-told/" + class}
			}
			return nil
		}

		all := append([]string{root}, names...)
		if withD {
			all = append(all, "D")
		}
		// node points
		for _, n := range all {
			pts := data.Points{{Type: "v", Value: 1.5, Time: tick(), Origin: "o"}, {Type: "w", Key: "k", Text: "t", Time: tick()}}
			seen = nil
			err := client.SendNodePoints(inst.Nc, n, append(data.Points{}, pts...), true)
			x.Step(1)
			if err != nil {
				return mc.Outcome{Violation: fmt.Sprintf("node points on %s refused: %v", n, err), Key: "legal-write-refused"}
			}
			exp := map[string]bool{"up." + n + "." + n: true}
			for a := range ancestors(n, false) {
				exp["up."+a+"."+n] = true
			}
			if v := verify("node points on "+n, "node-points", pts, exp); v != nil {
				return *v
			}
			// a batch with several samples of one identity (a sensor history sent in one go), both orders
			for _, rev := range []bool{false, true} {
				t1, t2, t3 := tick(), tick(), tick()
				if rev {
					t1, t3 = t3, t1
				}
				hist := data.Points{{Type: "s", Value: 1, Time: t1}, {Type: "s", Value: 2, Time: t2}, {Type: "d", Text: "x", Time: tick()}, {Type: "s", Key: "0", Value: 3, Time: t3}}
				seen = nil
				err := client.SendNodePoints(inst.Nc, n, append(data.Points{}, hist...), true)
				x.Step(1)
				if err != nil {
					return mc.Outcome{Violation: fmt.Sprintf("node points on %s (several samples of one identity) refused: %v", n, err), Key: "legal-write-refused"}
				}
				if v := verify("node points on "+n+" (several samples of one identity in one batch)", "node-points", hist, exp); v != nil {
					return *v
				}
			}
		}
		// edge points: on every existing edge (role, tombstone same value, tombstone flip) and on the root's own edge
		type ew struct {
			n, p string
			pts  data.Points
			what string
		}
		var writes []ew
		writes = append(writes, ew{root, "root", data.Points{{Type: "role", Value: 1, Time: tick()}}, "edge point on the root's edge"})
		for _, e := range cand {
			if state[e] == 0 {
				continue
			}
			cur := 0.0
			if state[e] == 2 {
				cur = 1
			}
			writes = append(writes,
				ew{id(e.c), id(e.p), data.Points{{Type: "role", Value: 2, Text: "r", Time: tick()}, {Type: "x", Key: "1", Time: tick()}}, fmt.Sprintf("edge points on %s>%s", e.p, e.c)},
				ew{id(e.c), id(e.p), data.Points{{Type: "role", Value: 3, Time: tick()}, {Type: "role", Value: 4, Time: tick()}, {Type: "y", Time: tick()}, {Type: "role", Key: "0", Value: 5, Time: tick()}}, fmt.Sprintf("edge points on %s>%s (several samples of one identity in one batch)", e.p, e.c)},
				ew{id(e.c), id(e.p), data.Points{{Type: data.PointTypeTombstone, Value: cur, Time: tick()}}, fmt.Sprintf("tombstone=%v re-sent on %s>%s", cur, e.p, e.c)})
			if e.c != "R" {
				writes = append(writes, ew{id(e.c), id(e.p), data.Points{{Type: data.PointTypeTombstone, Value: 1 - cur, Time: tick()}}, fmt.Sprintf("tombstone flipped to %v on %s>%s", 1-cur, e.p, e.c)})
			}
		}
		for _, w := range writes {
			seen = nil
			err := client.SendEdgePoints(inst.Nc, w.n, w.p, append(data.Points{}, w.pts...), true)
			x.Step(1)
			if err != nil {
				return mc.Outcome{Violation: fmt.Sprintf("%s refused: %v", w.what, err), Key: "legal-write-refused"}
			}
			exp := map[string]bool{"up." + w.n + "." + w.n + "." + w.p: true}
			for a := range ancestors(w.n, true) {
				exp["up."+a+"."+w.n+"."+w.p] = true
			}
			if v := verify(w.what, "edge-points", w.pts, exp); v != nil {
				return *v
			}
		}
		// every existing edge has now been flipped (live <-> deleted): node points again in the flipped shape,
		// then all edges flipped back and node points once more — what was learnt about a node's ancestors
		// before a deletion or a restoration must not be used afterwards
		nodeRound := func(label string) *mc.Outcome {
			for _, n := range all {
				pts := data.Points{{Type: "v", Value: 2.5, Time: tick(), Origin: "o"}}
				seen = nil
				err := client.SendNodePoints(inst.Nc, n, append(data.Points{}, pts...), true)
				x.Step(1)
				if err != nil {
					return &mc.Outcome{Violation: fmt.Sprintf("node points on %s (%s) refused: %v", n, label, err), Key: "legal-write-refused"}
				}
				exp := map[string]bool{"up." + n + "." + n: true}
				for a := range ancestors(n, false) {
					exp["up."+a+"."+n] = true
				}
				if v := verify("node points on "+n+" "+label, "node-points-after-flip", pts, exp); v != nil {
					return v
				}
			}
			return nil
		}
		flip := func() {
			for _, e := range cand {
				if state[e] != 0 && e.c != "R" {
					state[e] = 3 - state[e]
				}
			}
		}
		flip()
		if v := nodeRound("after every edge was flipped"); v != nil {
			return *v
		}
		for _, e := range cand {
			if state[e] == 0 || e.c == "R" {
				continue
			}
			back := 1.0 // an edge that is live now was deleted originally: delete it again
			if state[e] == 2 {
				back = 2 // an edge that is deleted now was live originally: restored by counting the tombstone up to an even value (2), as the point-level convention has it
			}
			if err := client.SendEdgePoints(inst.Nc, id(e.c), id(e.p), data.Points{{Type: data.PointTypeTombstone, Value: back, Time: tick()}}, true); err != nil {
				return mc.Outcome{Violation: fmt.Sprintf("tombstone flipped back on %s>%s refused: %v", e.p, e.c, err), Key: "legal-write-refused"}
			}
			x.Step(1)
		}
		flip()
		if v := nodeRound("after every edge was flipped back"); v != nil {
			return *v
		}
		return mc.Outcome{Obs: strings.Join(shape, " "), Trivial: nEdges == 0}
	}
}

func keys(m map[string]bool) []string {
	var out []string
	for k := range m {
		out = append(out, k)
	}
	sort.Strings(out)
	return out
}

func checkC06(r *mc.Report, thorough bool) {
	rule := "every DAG shape over root + %d nodes (each of the %d candidate edges absent/live%s; chains, mirrors, diamonds, detached nodes, nodes with points but no edge) x every node: node-point batch, batches with several samples of one identity (rising / falling times); every edge: edge-point batch, batch with several samples of one identity, tombstone re-sent, tombstone flipped; then node points on every node in the flipped shape, all edges flipped back, node points again; the set of up.* subjects seen by a spy must equal the set computed by graph reachability (node points: live edges; edge points: any edges; up.root.* iff the instance root is reached), payload identical"
	r.Explore(mc.Config{Name: "shapes-k3", Rule: fmt.Sprintf(rule, 3, 6, "/tombstoned"), SplitDepth: 4, SelfCheckEvery: 200}, c06Body(3, true))
	r.Explore(mc.Config{Name: "root-mirrored-k2", Rule: fmt.Sprintf(rule, 2, 5, "/tombstoned") + "; here the 5 candidate edges include D>root (absent/live: the store refuses to delete an edge above the root) and D>N1 for a node D outside the tree (the instance root itself has a second parent)", SplitDepth: 3}, c06Body(2, true, true))
	if thorough {
		r.Explore(mc.Config{Name: "shapes-k4", Rule: fmt.Sprintf(rule, 4, 10, "/tombstoned"), SplitDepth: 5}, c06Body(4, true))
	} else {
		r.Explore(mc.Config{Name: "shapes-k4-live", Rule: fmt.Sprintf(rule, 4, 10, ""), SplitDepth: 5}, c06Body(4, false))
	}
	sh.CleanupTemplate()
	r.Assume("shapes enumerated up to isomorphism by fixing a topological order (edges only from lower to higher index)")
}

func init() {
	registerSharded("C06", "model_checking", checkC06)
	bodies["C06/shapes-k3"] = c06Body(3, true)
	bodies["C06/root-mirrored-k2"] = c06Body(2, true, true)
	bodies["C06/shapes-k4"] = c06Body(4, true)
	bodies["C06/shapes-k4-live"] = c06Body(4, false)
}
