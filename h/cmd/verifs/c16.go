package main

import (
	"bytes"
	"encoding/hex"
	"fmt"
	"io"

	"github.com/simpleiot/simpleiot/client"
	"verif/h/mc"
)

// C16: COBS framing delivers each frame intact for any read chunking.
//
// Seam: the real client.CobsWrapper (Write for encoding, Read for decoding)
// over a scripted io.ReadWriteCloser whose Read answers with the next chunk
// of a segmentation chosen by the enumeration.

type scriptDev struct {
	chunks [][]byte
	wrote  bytes.Buffer
}

func (d *scriptDev) Read(p []byte) (int, error) {
	for len(d.chunks) > 0 && len(d.chunks[0]) == 0 {
		d.chunks = d.chunks[1:]
	}
	if len(d.chunks) == 0 {
		return 0, io.EOF
	}
	n := copy(p, d.chunks[0])
	d.chunks[0] = d.chunks[0][n:]
	return n, nil
}
func (d *scriptDev) Write(p []byte) (int, error) { return d.wrote.Write(p) }
func (d *scriptDev) Close() error                { return nil }

type c16Case struct {
	Frames []string `json:"frames_hex"`
	Stream string   `json:"stream_hex"` // after damage
	Cuts   []int    `json:"cuts"`       // cut before these byte offsets
	Damage string   `json:"damage,omitempty"`
	BufLen int      `json:"buf_len"`
	// CallerLen: length of the buffer the caller hands to Read when it differs from buf_len (the maximum message length)
	CallerLen int `json:"caller_buf_len,omitempty"`
	// frames expected before / after the damaged region (all frames when undamaged)
	Pre  int `json:"pre"`
	Post int `json:"post"`
}

// c16Encode uses the real writer.
func c16Encode(frames [][]byte, bufLen int) (stream []byte, ranges [][2]int) {
	d := &scriptDev{}
	cw := client.NewCobsWrapper(d, bufLen)
	for _, f := range frames {
		s := d.wrote.Len()
		if _, err := cw.Write(f); err != nil {
			panic(err)
		}
		ranges = append(ranges, [2]int{s, d.wrote.Len()})
	}
	return append([]byte{}, d.wrote.Bytes()...), ranges
}

// c16Run feeds stream cut at cuts to a fresh wrapper and returns what a caller
// of Read sees: the successful non-empty frames, the number of errors, and
// whether the reader kept returning data beyond any plausible bound.
// c16CallerLen: when > 0 the caller hands Read a buffer of this length (larger than the wrapper's maximum
// message length); set for the duration of one part only
var c16CallerLen int

func c16Run(stream []byte, cuts []int, bufLen int) (got [][]byte, errs int, runaway bool) {
	d := &scriptDev{}
	prev := 0
	for _, c := range cuts {
		d.chunks = append(d.chunks, stream[prev:c])
		prev = c
	}
	d.chunks = append(d.chunks, stream[prev:])
	cw := client.NewCobsWrapper(d, bufLen)
	limit := 4*len(stream) + 16
	for i := 0; ; i++ {
		if i > limit {
			return got, errs, true
		}
		buf := make([]byte, bufLen)
		if c16CallerLen > 0 {
			buf = make([]byte, c16CallerLen)
		}
		n, err := cw.Read(buf)
		if err == io.EOF {
			return got, errs, false
		}
		if err != nil {
			errs++
			continue
		}
		if n > 0 {
			got = append(got, append([]byte{}, buf[:n]...))
		}
	}
}

func hexs(bs [][]byte) []string {
	var r []string
	for _, b := range bs {
		if len(b) > 24 {
			r = append(r, fmt.Sprintf("%s..(%d bytes)", hex.EncodeToString(b[:8]), len(b)))
		} else {
			r = append(r, hex.EncodeToString(b))
		}
	}
	return r
}

// c16Check evaluates the oracle. frames[0:pre] must be the first successes,
// frames[len-post:] the last, and at most 2 arbitrary successes in between
// (what is returned for a damaged region is unconstrained; one damaged byte
// can split a region into at most two pieces).
func c16Check(frames [][]byte, stream []byte, cuts []int, bufLen, pre, post int, damaged bool) (key, msg string) {
	var got [][]byte
	var errs int
	var runaway bool
	if p := mc.Safely(func() { got, errs, runaway = c16Run(stream, cuts, bufLen) }); p != "" {
		return "panic", "CobsWrapper.Read panicked: " + p
	}
	_ = errs
	if runaway {
		return "runaway", fmt.Sprintf("Read keeps returning data: %d returns for a %d-byte stream; first %v", len(got), len(stream), hexs(got[:min(len(got), 4)]))
	}
	kind := "undamaged"
	if damaged {
		kind = "damaged"
	}
	mid := len(got) - pre - post
	if mid < 0 {
		return kind + "/frames-lost", fmt.Sprintf("wrote %v, Read returned only %v", hexs(frames), hexs(got))
	}
	maxMid := 0
	if damaged {
		maxMid = 2
	}
	if mid > maxMid {
		return kind + "/extra-frames", fmt.Sprintf("wrote %v, Read returned %v", hexs(frames), hexs(got))
	}
	for i := 0; i < pre; i++ {
		if !bytes.Equal(got[i], frames[i]) {
			return kind + "/frame-corrupt", fmt.Sprintf("frame %d: wrote %v, Read returned %v", i, hexs(frames), hexs(got))
		}
	}
	for i := 0; i < post; i++ {
		if !bytes.Equal(got[len(got)-1-i], frames[len(frames)-1-i]) {
			return kind + "/frame-corrupt", fmt.Sprintf("frame %d from end: wrote %v, Read returned %v", i, hexs(frames), hexs(got))
		}
	}
	return "", ""
}

func hexFull(bs [][]byte) []string {
	var r []string
	for _, b := range bs {
		r = append(r, hex.EncodeToString(b))
	}
	return r
}

func rep(b byte, n int) []byte { return bytes.Repeat([]byte{b}, n) }

func c16Seqs(alpha [][]byte, maxLen int) [][][]byte {
	var out [][][]byte
	var rec func(cur [][]byte)
	rec = func(cur [][]byte) {
		if len(cur) > 0 {
			out = append(out, append([][]byte{}, cur...))
		}
		if len(cur) == maxLen {
			return
		}
		for _, a := range alpha {
			rec(append(cur, a))
		}
	}
	rec(nil)
	return out
}

// cutSets enumerates all subsets of size <= k of {1..n-1}, calling f.
func cutSets(n, k int, f func(cuts []int)) {
	cur := make([]int, 0, k)
	var rec func(start int)
	rec = func(start int) {
		f(cur)
		if len(cur) == k {
			return
		}
		for c := start; c < n; c++ {
			cur = append(cur, c)
			rec(c + 1)
			cur = cur[:len(cur)-1]
		}
	}
	rec(1)
}

func maskCuts(mask uint32, n int) []int {
	var cuts []int
	for b := 1; b < n; b++ {
		if mask&(1<<(b-1)) != 0 {
			cuts = append(cuts, b)
		}
	}
	return cuts
}

func checkC16(r *mc.Report, thorough bool) {
	small := [][]byte{{0x41}, {0x00}, {0x01, 0x02, 0x03}, {0x00, 0x00}, {0x01, 0x00, 0x02}}
	const smallBuf = 64
	maxAll := 15 // streams up to this many bytes: all 2^(n-1) segmentations
	maxSeq := 3
	kLong := 2
	if thorough {
		maxAll = 20
		kLong = 3
	}

	// ---- part 1: undamaged, small frames, all segmentations
	p := r.Part("undamaged-small", fmt.Sprintf("all sequences of 1..%d frames over %d payloads; every one of the 2^(n-1) segmentations of the encoded stream when n<=%d bytes, else every set of <=%d cuts; distinct by (sequence, cut set)", maxSeq, len(small), maxAll, kLong))
	seqs := c16Seqs(small, maxSeq)
	mc.ParallelFor(len(seqs), func(i int) {
		frames := seqs[i]
		stream, _ := c16Encode(frames, smallBuf)
		n := len(stream)
		try := func(cuts []int) {
			p.Case(len(cuts) > 0)
			p.Step(1)
			if key, msg := c16Check(frames, stream, cuts, smallBuf, len(frames), 0, false); key != "" {
				if len(frames) > 1 {
					key += "/multi-frame"
				}
				p.Violation(key, msg, c16Case{Frames: hexFull(frames), Stream: hex.EncodeToString(stream), Cuts: append([]int{}, cuts...), BufLen: smallBuf, Pre: len(frames)})
			}
		}
		if n <= maxAll {
			for m := uint32(0); m < 1<<(n-1); m++ {
				try(maskCuts(m, n))
			}
		} else {
			cutSets(n, kLong, try)
		}
		if i < 2 {
			r.AddSample(map[string]any{"part": "undamaged-small", "frames": hexs(frames), "stream": hex.EncodeToString(stream), "segmentations": "all"})
		}
	})
	p.Done()

	// ---- part 1b: the same sequences with TIGHT buffers: the caller's buffer (= the configured maximum) is just large
	// enough for the longest encoded frame of the sequence, or exactly as long as the whole stream, so that device
	// reads fill it to the last byte and a delimiter lands on its last position
	p = r.Part("undamaged-tight-buffers", fmt.Sprintf("all sequences of 1..%d frames over %d payloads with the buffer length (= maximum message length) set to the longest encoded frame of the sequence +0..+3 bytes and to the length of the whole stream +0 / +1; the device hands out as much as fits (no cut) or is cut at one position", maxSeq, len(small)))
	mc.ParallelFor(len(seqs), func(i int) {
		frames := seqs[i]
		stream, ranges := c16Encode(frames, smallBuf)
		longest := 0
		for _, rg := range ranges {
			if rg[1]-rg[0] > longest {
				longest = rg[1] - rg[0]
			}
		}
		lens := map[int]bool{}
		for d := 0; d <= 3; d++ {
			lens[longest+d] = true
		}
		lens[len(stream)] = true
		lens[len(stream)+1] = true
		for bl := range lens {
			cutSets(len(stream), 1, func(cuts []int) {
				p.Case(true)
				p.Step(1)
				if key, msg := c16Check(frames, stream, cuts, bl, len(frames), 0, false); key != "" {
					p.Violation(key+"/tight-buffer", fmt.Sprintf("buffer length %d: %s", bl, msg), c16Case{Frames: hexFull(frames), Stream: hex.EncodeToString(stream), Cuts: append([]int{}, cuts...), BufLen: bl, Pre: len(frames)})
				}
			})
		}
	})
	p.Done()

	// ---- bursts: many small frames delivered by ONE device read into a caller buffer that is much larger than the
	// maximum message length (what is left over after the first frame exceeds that length)
	p = r.Part("undamaged-bursts-large-caller-buffer", "12 and 40 small frames in one stream, maximum message length 16 / 32, caller buffer 512: one device read for the whole stream, and every single cut")
	c16CallerLen = 512
	for _, nf := range []int{12, 40} {
		var frames [][]byte
		for i := 0; i < nf; i++ {
			frames = append(frames, []byte{byte(i + 1), 0, byte(0xa0 + i%7)})
		}
		for _, maxLen := range []int{16, 32} {
			stream, _ := c16Encode(frames, maxLen)
			cutSets(len(stream), 1, func(cuts []int) {
				p.Case(true)
				p.Step(1)
				if key, msg := c16Check(frames, stream, cuts, maxLen, len(frames), 0, false); key != "" {
					p.Violation(key+"/burst", fmt.Sprintf("maximum message length %d, caller buffer 512: %s", maxLen, msg), c16Case{Frames: hexFull(frames), Stream: hex.EncodeToString(stream), Cuts: append([]int{}, cuts...), BufLen: maxLen, CallerLen: 512, Pre: len(frames)})
				}
			})
		}
	}
	c16CallerLen = 0
	p.Done()

	// ---- part 2: undamaged, long frames around the 0xff block boundary and the buffer limit
	const bigBuf = 600
	var long [][]byte
	for _, n := range []int{253, 254, 255, 256, 508, 509} {
		long = append(long, rep(0xff, n))
	}
	mixed := append(rep(0x07, 253), 0x00)
	mixed = append(mixed, rep(0x09, 254)...)
	long = append(long, mixed)
	// longest frame that fits: encoded = 1 + n + n/254 + 1 + 1(leading 0) must stay < bufLen
	long = append(long, rep(0x55, 590))
	kBig := 1
	if thorough {
		kBig = 2
	}
	p = r.Part("undamaged-long", fmt.Sprintf("frames of 253..590 bytes (0xff block boundary, buffer limit), alone and followed/preceded by a short frame; every set of <=%d cuts at all positions", kBig))
	type job struct{ frames [][]byte }
	var jobs []job
	for _, l := range long {
		jobs = append(jobs, job{[][]byte{l}})
		if len(l) < 300 {
			jobs = append(jobs, job{[][]byte{l, {0x41}}}, job{[][]byte{{0x00}, l}})
		}
	}
	mc.ParallelFor(len(jobs), func(i int) {
		frames := jobs[i].frames
		stream, _ := c16Encode(frames, bigBuf)
		cutSets(len(stream), kBig, func(cuts []int) {
			p.Case(len(cuts) > 0)
			p.Step(1)
			if key, msg := c16Check(frames, stream, cuts, bigBuf, len(frames), 0, false); key != "" {
				p.Violation(key+"/long", msg, c16Case{Frames: hexFull(frames), Stream: hex.EncodeToString(stream), Cuts: append([]int{}, cuts...), BufLen: bigBuf, Pre: len(frames)})
			}
		})
	})
	p.Done()

	// ---- part 3: one damage event at every position
	dseqLen := 3
	kDam := 2
	p = r.Part("single-damage", fmt.Sprintf("sequences of 1..%d small frames; one damage event (substitute by 00/01/ff/flip-msb, delete, insert 00/01/ff) at every stream position; every set of <=%d cuts", dseqLen, kDam))
	dseqs := c16Seqs(small[:4], dseqLen)
	if !thorough {
		// quick: all 1- and 2-frame sequences, 3-frame ones only over two payloads
		var q [][][]byte
		for _, s := range dseqs {
			if len(s) <= 2 {
				q = append(q, s)
			}
		}
		q = append(q, c16Seqs([][]byte{{0x41}, {0x01, 0x00, 0x02}}, 3)[6:]...)
		dseqs = q
	}
	mc.ParallelFor(len(dseqs), func(i int) {
		frames := dseqs[i]
		stream, ranges := c16Encode(frames, smallBuf)
		for pos := 0; pos <= len(stream); pos++ {
			type dmg struct {
				name string
				out  []byte
				lo   int // damaged byte range in the ORIGINAL stream: [lo,hi)
				hi   int
			}
			var ds []dmg
			if pos < len(stream) {
				for _, v := range []byte{0x00, 0x01, 0xff, stream[pos] ^ 0x80} {
					if v == stream[pos] {
						continue
					}
					o := append([]byte{}, stream...)
					o[pos] = v
					ds = append(ds, dmg{fmt.Sprintf("sub@%d=%02x", pos, v), o, pos, pos + 1})
				}
				o := append(append([]byte{}, stream[:pos]...), stream[pos+1:]...)
				ds = append(ds, dmg{fmt.Sprintf("del@%d", pos), o, pos, pos + 1})
			}
			for _, v := range []byte{0x00, 0x01, 0xff} {
				o := append(append(append([]byte{}, stream[:pos]...), v), stream[pos:]...)
				// an insertion between bytes pos-1 and pos touches a frame iff both lie in its range
				ds = append(ds, dmg{fmt.Sprintf("ins@%d=%02x", pos, v), o, pos, pos})
			}
			for _, d := range ds {
				pre, post := 0, 0
				for _, rg := range ranges {
					var touched bool
					if d.lo == d.hi { // insertion
						touched = d.lo > rg[0] && d.lo < rg[1]
					} else {
						touched = d.lo >= rg[0] && d.lo < rg[1]
					}
					if touched {
						continue
					}
					if rg[1] <= d.lo {
						pre++
					} else {
						post++
					}
				}
				cutSets(len(d.out), kDam, func(cuts []int) {
					p.Case(true)
					p.Step(1)
					if key, msg := c16Check(frames, d.out, cuts, smallBuf, pre, post, true); key != "" {
						p.Violation(key, d.name+": "+msg, c16Case{Frames: hexFull(frames), Stream: hex.EncodeToString(d.out), Cuts: append([]int{}, cuts...), Damage: d.name, BufLen: smallBuf, Pre: pre, Post: post})
					}
				})
			}
		}
		if i == 0 {
			r.AddSample(map[string]any{"part": "single-damage", "frames": hexs(frames), "stream": hex.EncodeToString(stream), "damage": "every kind at every position"})
		}
	})
	p.Done()
	r.Assume("zero-length frames are outside the alphabet (a 0-byte Read result is indistinguishable from 'no frame')")
	r.Assume("successful non-empty Read results are the delivered frames; error returns are not frames")
}

func init() {
	register("C16", "exploration", checkC16)
	replayC16 := func(v *mc.Violation) string {
		c := reinput[c16Case](v)
		stream, _ := hex.DecodeString(c.Stream)
		var frames [][]byte
		for _, f := range c.Frames {
			b, err := hex.DecodeString(f)
			if err != nil {
				return "HARNESS-ERROR: bad replay file"
			}
			frames = append(frames, b)
		}
		c16CallerLen = c.CallerLen
		defer func() { c16CallerLen = 0 }()
		_, msg := c16Check(frames, stream, c.Cuts, c.BufLen, c.Pre, c.Post, c.Damage != "")
		return msg
	}
	for _, p := range []string{"undamaged-small", "undamaged-long", "single-damage", "undamaged-tight-buffers", "undamaged-bursts-large-caller-buffer"} {
		replayers["C16/"+p] = replayC16
	}
}
