package main

import (
	"fmt"
	"math"
	"sort"
	"strings"
	"time"

	"github.com/simpleiot/simpleiot/client"
	"github.com/simpleiot/simpleiot/data"
	"verif/h/mc"
	"verif/h/sh"
)

// C05: the graph stays a rooted DAG and refused writes leave no trace.
// Explicit-state search over graph states (root + A,B,C, edges in any
// direction, live or deleted); in EVERY state the full menu of requests that
// must be refused is executed on the real store, each followed by a full
// snapshot comparison and a look at the rebroadcast stream.

type c05Graph struct {
	root  string
	edges map[[2]string]bool // (parent, child) -> deleted?
	pts   map[string]bool    // node has points
	clock int64
}

func (g *c05Graph) key() string {
	var s []string
	for e, d := range g.edges {
		s = append(s, fmt.Sprintf("%s>%s:%v", e[0], e[1], d))
	}
	for n := range g.pts {
		s = append(s, "P"+n)
	}
	sort.Strings(s)
	return strings.Join(s, ",")
}

// reaches: is `to` reachable from `from` walking child->parent over all edges (live or deleted)?
func (g *c05Graph) isAncestorOrSelf(anc, n string) bool {
	seen := map[string]bool{}
	var up func(x string) bool
	up = func(x string) bool {
		if x == anc {
			return true
		}
		if seen[x] {
			return false
		}
		seen[x] = true
		for e := range g.edges {
			if e[1] == x && up(e[0]) {
				return true
			}
		}
		return false
	}
	return up(n)
}

// wouldCycle: adding parent->child makes child its own ancestor.
func (g *c05Graph) wouldCycle(parent, child string) bool {
	return parent == child || g.isAncestorOrSelf(child, parent)
}

type c05Req struct {
	desc   string
	class  string
	edge   bool
	node   string
	parent string
	pts    data.Points
}

func c05Body(depth int) mc.Body {
	return func(x *mc.X) mc.Outcome {
		inst, err := sh.New(sh.Opts{})
		if err != nil {
			return mc.Outcome{Violation: "HARNESS: " + err.Error(), Key: "harness"}
		}
		defer inst.Close()
		root := inst.RootID
		nodes := []string{"A", "B", "C"}
		universe := append([]string{root}, nodes...)
		g := &c05Graph{root: root, edges: map[[2]string]bool{}, pts: map[string]bool{}, clock: 10}
		var ups []string
		inst.Bus.Spy(func(subject, reply string, d []byte) {
			if strings.HasPrefix(subject, "up.") {
				ups = append(ups, subject)
			}
		})
		tick := func() time.Time { g.clock++; return time.Unix(0, g.clock) }

		doers := map[string]func() error{}
		send := func(q c05Req) error {
			if f, ok := doers[q.desc]; ok {
				return f() // a composite client helper instead of a single request
			}
			cp := append(data.Points{}, q.pts...)
			if q.edge {
				return client.SendPoints(inst.Nc, client.SubjectEdgePoints(q.node, q.parent), cp, true)
			}
			return client.SendNodePoints(inst.Nc, q.node, cp, true)
		}

		// menu of requests that must be refused in the current state
		menu := func() []c05Req {
			var m []c05Req
			tomb := func(v float64) data.Point { return data.Point{Type: data.PointTypeTombstone, Value: v, Time: tick()} }
			nt := data.Point{Type: data.PointTypeNodeType, Text: "vtest"}
			for _, n := range universe {
				m = append(m, c05Req{fmt.Sprintf("self edge %s>%s", n, n), "self-edge", true, n, n, data.Points{tomb(0), nt}})
			}
			m = append(m, c05Req{"tombstone on the root", "root-tombstone", true, root, "root", data.Points{tomb(1)}})
			m = append(m, c05Req{"tombstone on the root inside a batch", "root-tombstone", true, root, "root", data.Points{{Type: "role", Value: 2, Time: tick()}, tomb(1)}})
			// a node that would become the instance root (first placement below the root sentinel) and is born deleted:
			// accepting it switches the instance to a root that does not exist for any reader
			m = append(m, c05Req{"new node placed below the root sentinel with tombstone=1 (it would become a deleted instance root)", "root-tombstone", true, "Ynew", "root", data.Points{tomb(1), nt}})
			m = append(m, c05Req{"an existing node placed below the root sentinel with tombstone=1", "root-tombstone", true, "A", "root", data.Points{tomb(1), nt}})
			// any non-zero tombstone value deletes the root for at least one of the store's own readers
			// (reads: ==1, rebroadcast path: odd / fractional, login path: !=0)
			for _, v := range []float64{3, 2, 0.5, -1, -2} {
				m = append(m, c05Req{fmt.Sprintf("tombstone with value %v on the root", v), "root-tombstone", true, root, "root", data.Points{tomb(v)}})
			}
			for _, p := range universe {
				for _, c := range universe {
					if p == c {
						continue
					}
					_, exists := g.edges[[2]string{p, c}]
					if c == root {
						// the root under one of its descendants (or under a detached node)
						if g.wouldCycle(p, c) {
							m = append(m, c05Req{fmt.Sprintf("edge %s>%s closes a cycle through the root", p, c), "cycle", true, c, p, data.Points{tomb(0), {Type: data.PointTypeNodeType, Text: "device"}}})
						}
						continue
					}
					if !exists {
						m = append(m, c05Req{fmt.Sprintf("new edge %s>%s without node type", p, c), "no-node-type", true, c, p, data.Points{tomb(0)}})
						if g.wouldCycle(p, c) {
							m = append(m, c05Req{fmt.Sprintf("edge %s>%s closes a cycle", p, c), "cycle", true, c, p, data.Points{tomb(0), nt}})
							m = append(m, c05Req{fmt.Sprintf("deleted edge %s>%s closes a cycle", p, c), "cycle", true, c, p, data.Points{tomb(1), nt}})
						}
					}
				}
			}
			nan := math.NaN()
			mk := func(pos int) data.Points {
				ps := data.Points{{Type: "v1", Value: 1, Time: tick()}, {Type: "v2", Value: 2, Time: tick()}, {Type: "v3", Value: 3, Time: tick()}}
				ps[pos].Value = nan
				return ps
			}
			for pos := 0; pos < 3; pos++ {
				m = append(m, c05Req{fmt.Sprintf("node points on A with NaN at position %d", pos), "nan-node-point", false, "A", "", mk(pos)})
				m = append(m, c05Req{fmt.Sprintf("node points on the root with NaN at position %d", pos), "nan-node-point", false, root, "", mk(pos)})
			}
			// large batches (a history upload): a store that writes them piecewise must not keep the pieces before the NaN
			mkBig := func(pos int) data.Points {
				var ps data.Points
				for i := 0; i < 150; i++ {
					ps = append(ps, data.Point{Type: "big", Key: fmt.Sprintf("k%d", i), Value: float64(i), Time: tick()})
				}
				ps[pos].Value = nan
				return ps
			}
			for _, pos := range []int{64, 100, 149} {
				m = append(m, c05Req{fmt.Sprintf("150 node points on A with NaN at position %d", pos), "nan-node-point", false, "A", "", mkBig(pos)})
			}
			{
				var first *[2]string
				for e := range g.edges {
					e := e
					if first == nil || e[0]+">"+e[1] < first[0]+">"+first[1] {
						first = &e
					}
				}
				if first != nil {
					m = append(m, c05Req{fmt.Sprintf("150 edge points on %s>%s with NaN at position 100", first[0], first[1]), "nan-edge-point", true, first[1], first[0], mkBig(100)})
				}
			}
			// the client helpers that move / mirror a node, aimed below one of the node's own descendants: the
			// helper as a whole must fail and leave nothing behind (a move is two requests)
			for e, del := range g.edges {
				p, c := e[0], e[1]
				if del {
					continue
				}
				for _, d := range universe {
					if d == c || d == root || !g.isAncestorOrSelf(c, d) {
						continue
					}
					if _, exists := g.edges[[2]string{d, c}]; exists {
						continue
					}
					pp, cc, dd := p, c, d
					mv, mr := fmt.Sprintf("MoveNode(%s from %s to its descendant %s)", cc, pp, dd), fmt.Sprintf("MirrorNode(%s below its descendant %s)", cc, dd)
					doers[mv] = func() error { return client.MoveNode(inst.Nc, cc, pp, dd, "mover") }
					doers[mr] = func() error { return client.MirrorNode(inst.Nc, cc, dd, "mover") }
					m = append(m, c05Req{mv, "cycle", true, cc, dd, nil}, c05Req{mr, "cycle", true, cc, dd, nil})
				}
			}
			// a new edge below the root sentinel (a second root) without node type, for an existing and for a new node
			for _, n := range []string{"A", "Z9"} {
				m = append(m, c05Req{fmt.Sprintf("new edge root-sentinel>%s without node type", n), "no-node-type", true, n, "root", data.Points{tomb(0)}})
			}
			// NaN in a point that is itself marked deleted (point-level tombstone count): still a value the store cannot hold
			for _, tb := range []int{1, 2, 3} {
				m = append(m, c05Req{fmt.Sprintf("node point on A with NaN and tombstone count %d", tb), "nan-node-point", false, "A", "", data.Points{{Type: "tn", Value: nan, Tombstone: tb, Time: tick()}}})
				for e := range g.edges {
					m = append(m, c05Req{fmt.Sprintf("edge point on %s>%s with NaN and tombstone count %d", e[0], e[1], tb), "nan-edge-point", true, e[1], e[0], data.Points{{Type: "tn", Value: nan, Tombstone: tb, Time: tick()}}})
					break
				}
			}
			// NaN shadowed inside the batch by another point of the same identity (newer, older, key alias)
			dup := func(nanFirst bool, newer bool, alias bool) data.Points {
				t1, t2 := tick(), tick()
				k2 := ""
				if alias {
					k2 = "0"
				}
				a := data.Point{Type: "dv", Value: nan, Time: t1}
				b := data.Point{Type: "dv", Key: k2, Value: 5, Time: t2}
				if !newer {
					a.Time, b.Time = t2, t1
				}
				if nanFirst {
					return data.Points{a, b}
				}
				return data.Points{b, a}
			}
			for _, nf := range []bool{true, false} {
				for _, nw := range []bool{true, false} {
					for _, al := range []bool{false, true} {
						m = append(m, c05Req{fmt.Sprintf("node points on A: NaN and a second point of the same identity (NaN first=%v, other newer=%v, key alias=%v)", nf, nw, al), "nan-node-point", false, "A", "", dup(nf, nw, al)})
					}
				}
			}
			for e := range g.edges {
				m = append(m, c05Req{fmt.Sprintf("edge points on %s>%s: NaN shadowed by a newer point of the same identity", e[0], e[1]), "nan-edge-point", true, e[1], e[0], dup(true, true, false)})
				m = append(m, c05Req{fmt.Sprintf("edge points on %s>%s: NaN after an older point of the same identity", e[0], e[1]), "nan-edge-point", true, e[1], e[0], dup(false, false, false)})
				for pos := 0; pos < 3; pos++ {
					m = append(m, c05Req{fmt.Sprintf("edge points on %s>%s with NaN at position %d", e[0], e[1], pos), "nan-edge-point", true, e[1], e[0], mk(pos)})
				}
			}
			// NaN on a brand-new (otherwise legal) edge
			for _, p := range universe {
				for _, c := range nodes {
					if _, exists := g.edges[[2]string{p, c}]; !exists && p != c && !g.wouldCycle(p, c) {
						ps := mk(1)
						ps = append(ps, data.Point{Type: data.PointTypeTombstone, Time: tick()}, nt)
						m = append(m, c05Req{fmt.Sprintf("new edge %s>%s with a NaN edge point", p, c), "nan-edge-point", true, c, p, ps})
						break
					}
				}
			}
			sort.SliceStable(m, func(i, j int) bool { return classRank(m[i].class) < classRank(m[j].class) })
			return m
		}

		checkState := func(what string) *mc.Outcome {
			before, err := inst.Snap(universe)
			if err != nil {
				return &mc.Outcome{Violation: "read failed after " + what + ": " + err.Error(), Key: "read-failed"}
			}
			var found []mc.Outcome
			seenClass := map[string]bool{}
			add := func(key, msg string) {
				if !seenClass[key] {
					seenClass[key] = true
					found = append(found, mc.Outcome{Violation: msg, Key: key})
				}
			}
			for _, q := range menu() {
				ups = nil
				err := send(q)
				x.Step(1)
				if err == nil {
					add("accepted/"+q.class, fmt.Sprintf("in state {%s}: %s was accepted (no error reply)", g.key(), q.desc))
				} else if strings.Contains(err.Error(), "timeout") || strings.Contains(err.Error(), "no responders") {
					add("not-answered/"+q.class, fmt.Sprintf("in state {%s}: %s was not answered: %v", g.key(), q.desc, err))
				}
				if err != nil && len(ups) > 0 {
					add("refused-but-rebroadcast/"+q.class, fmt.Sprintf("in state {%s}: %s was refused (%v) but rebroadcast on %v", g.key(), q.desc, err, ups))
				}
				// the instance root is still the same one (asked the way clients ask: nodes.root.all)
				if rn, rerr := client.GetRootNode(inst.Nc); rerr != nil || rn.ID != root {
					add("root-changed-by-refused-request/"+q.class, fmt.Sprintf("in state {%s}: after %s (reply: %v) the instance answers the root query with %q (%v), the root is %q", g.key(), q.desc, err, rn.ID, rerr, root))
					break
				}
				after, err2 := inst.Snap(universe)
				if err2 != nil {
					add("unreadable-afterwards/"+q.class, fmt.Sprintf("in state {%s}: after %s (reply: %v) the instance cannot be read any more: %v", g.key(), q.desc, err, err2))
					break // the instance is damaged: nothing further can be compared
				}
				if err != nil && after.String() != before.String() {
					add("refused-but-changed/"+q.class, fmt.Sprintf("in state {%s}: %s was refused (%v) but left a trace:\nbefore\n%safter\n%s", g.key(), q.desc, err, before.String(), after.String()))
				}
				if after.String() != before.String() {
					// the state moved (wrongly accepted or trace left): the reference graph no longer describes it
					break
				}
			}
			if len(found) == 0 {
				return nil
			}
			o := found[0]
			o.More = found[1:]
			return &o
		}

		// transitions: legal writes
		type tr struct {
			kind          string
			parent, child string
			del           bool
		}
		var trs []tr
		for _, p := range universe {
			for _, c := range nodes {
				if p != c {
					trs = append(trs, tr{"edge", p, c, false}, tr{"edge", p, c, true})
				}
			}
		}
		for _, n := range nodes {
			trs = append(trs, tr{kind: "points", child: n})
		}

		if !x.Replaying() {
			if v := checkState("start"); v != nil {
				return *v
			}
		}
		for d := 0; d < depth; d++ {
			t := trs[x.Choose(len(trs), "transition")]
			if t.kind == "points" {
				if g.pts[t.child] {
					return mc.Outcome{Trivial: true, Obs: "dup"}
				}
				err := client.SendNodePoints(inst.Nc, t.child, data.Points{{Type: "v", Value: 1, Time: tick()}}, true)
				x.Step(1)
				x.Logf("node point on %s", t.child)
				if err != nil {
					return mc.Outcome{Violation: fmt.Sprintf("legal node point write on %s refused: %v", t.child, err), Key: "legal-write-refused/node-point"}
				}
				g.pts[t.child] = true
			} else {
				e := [2]string{t.parent, t.child}
				cur, exists := g.edges[e]
				if exists && cur == t.del {
					return mc.Outcome{Trivial: true, Obs: "noop"}
				}
				if !exists && g.wouldCycle(t.parent, t.child) {
					return mc.Outcome{Trivial: true, Obs: "cyclic (in the refused menu)"}
				}
				v := 0.0
				if t.del {
					v = 1
				}
				pts := data.Points{{Type: data.PointTypeTombstone, Value: v, Time: tick()}}
				if !exists {
					pts = append(pts, data.Point{Type: data.PointTypeNodeType, Text: "vtest"})
				}
				err := client.SendEdgePoints(inst.Nc, t.child, t.parent, pts, true)
				x.Step(1)
				x.Logf("edge %s>%s deleted=%v", t.parent, t.child, t.del)
				if err != nil {
					return mc.Outcome{Violation: fmt.Sprintf("legal edge write %s>%s (deleted=%v) refused in state {%s}: %v", t.parent, t.child, t.del, g.key(), err), Key: "legal-write-refused/edge"}
				}
				g.edges[e] = t.del
			}
			if !x.Replaying() {
				if v := checkState(x.History()[len(x.History())-1]); v != nil {
					return *v
				}
				// the instance keeps answering: a follow-up write and read
				if err := client.SendNodePoints(inst.Nc, root, data.Points{{Type: "alive", Value: float64(d), Time: tick()}}, true); err != nil {
					return mc.Outcome{Violation: "follow-up write not answered: " + err.Error(), Key: "follow-up-failed"}
				}
				if _, err := client.GetNodes(inst.Nc, "root", "all", "", false); err != nil {
					return mc.Outcome{Violation: "follow-up read not answered: " + err.Error(), Key: "follow-up-failed"}
				}
			}
			x.StateKey(fmt.Sprintf("%d|%s", depth-d-1, g.key()))
		}
		return mc.Outcome{Obs: g.key()}
	}
}

func classRank(c string) int {
	// cheapest-to-explain first; cycles last (a cycle may never return)
	for i, k := range []string{"self-edge", "root-tombstone", "no-node-type", "nan-node-point", "nan-edge-point", "cycle"} {
		if k == c {
			return i
		}
	}
	return 9
}

func checkC05(r *mc.Report, thorough bool) {
	depth := 3
	if thorough {
		depth = 4
	}
	r.Explore(mc.Config{Name: fmt.Sprintf("graph-states-d%d", depth), Prune: true, SplitDepth: 2, StopAfterViolations: 12,
		Rule: fmt.Sprintf("explicit-state search over graph states reached by %d legal writes (create/delete/undelete any of the 9 edges among root,A,B,C in either direction, node points), states = (edge set with tombstones, nodes with points, remaining depth); in EVERY new state the whole menu of must-be-refused requests is executed: self edges, root tombstone (value 1 alone / in a batch; values 3, 2, 0.5, -1, -2), new edge without node type (also below the root sentinel), every edge that would close a cycle through live or deleted edges (incl. through the root), client.MoveNode / MirrorNode of a node below one of its own descendants, NaN at each position of node-point and edge-point batches, NaN at positions 64 / 100 / 149 of a 150-point batch, NaN in points that carry a tombstone count; after each: error reply, the root query still names the same root, full snapshot unchanged, nothing on up.>, follow-up write+read answered", depth)},
		c05Body(depth))
	sh.CleanupTemplate()
	r.Assume("reference graph: an edge parent>child is cyclic iff parent==child or child is an ancestor of parent through any (live or deleted) edges")
	r.Assume("a request that never returns kills or hangs its shard; the parent re-runs that one sequence 5x in isolated processes and reports it only if it fails every time")
}

func init() {
	registerSharded("C05", "model_checking", checkC05)
	for _, d := range []int{2, 3, 4} {
		bodies[fmt.Sprintf("C05/graph-states-d%d", d)] = c05Body(d)
	}
}
