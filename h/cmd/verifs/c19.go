package main

import (
	"encoding/binary"
	"errors"
	"fmt"
	"io"
	"math"
	"net"
	"sync"
	"time"

	"github.com/simpleiot/simpleiot/modbus"
	"verif/h/mc"
)

// C19: Modbus client, server and transports agree end to end.
// Seam: real modbus.Client <-> real modbus.Server.Listen over an in-memory
// duplex (packet preserving pipe for RTU, net.Pipe for TCP).

// pktPipe: packet preserving in-memory serial line. One Write = one packet; a
// Read returns (the rest of) the oldest packet.
type pktEnd struct {
	in     chan []byte
	out    chan []byte
	rest   []byte
	closed chan struct{}
	once   sync.Once
}

func newPktPipe() (*pktEnd, *pktEnd) {
	a, b := make(chan []byte, 16), make(chan []byte, 16)
	return &pktEnd{in: a, out: b, closed: make(chan struct{})}, &pktEnd{in: b, out: a, closed: make(chan struct{})}
}

func (p *pktEnd) Read(b []byte) (int, error) {
	if len(p.rest) == 0 {
		select {
		case pk := <-p.in:
			p.rest = pk
		case <-p.closed:
			return 0, io.EOF
		case <-time.After(20 * time.Second):
			return 0, errors.New("harness: read timeout")
		}
	}
	n := copy(b, p.rest)
	p.rest = p.rest[n:]
	return n, nil
}

func (p *pktEnd) Write(b []byte) (int, error) {
	select {
	case p.out <- append([]byte{}, b...):
		return len(b), nil
	case <-p.closed:
		return 0, io.ErrClosedPipe
	}
}

func (p *pktEnd) Close() error { p.once.Do(func() { close(p.closed) }); return nil }

// drain discards stale bytes (after a transaction that the client gave up on).
func (p *pktEnd) drain() int {
	n := len(p.rest)
	p.rest = nil
	for {
		select {
		case pk := <-p.in:
			n += len(pk)
		default:
			return n
		}
	}
}

type c19Link struct {
	kind   string
	client *modbus.Client
	server *modbus.Server
	regs   *modbus.Regs
	ref    *refRegs
	spec   regMapSpec
	rtuC   *pktEnd
	tcpC   net.Conn
	id     byte
	done   chan struct{}
	errs   chan error
	bad    int // anomalies seen on this link; the link is abandoned after a few (each may cost a timeout)
}

func newLink(kind string, spec regMapSpec, id byte) *c19Link {
	l := &c19Link{kind: kind, regs: spec.build(), ref: spec.ref(), spec: spec, id: id, done: make(chan struct{}), errs: make(chan error, 1024)}
	var ct, st modbus.Transport
	if kind == "rtu" {
		c, s := newPktPipe()
		l.rtuC = c
		ct, st = modbus.NewRTU(c), modbus.NewRTU(s)
	} else {
		c, s := net.Pipe()
		l.tcpC = c
		ct, st = modbus.NewTCP(c, 20*time.Second, modbus.TransportClient), modbus.NewTCP(s, time.Hour, modbus.TransportServer)
	}
	l.client = modbus.NewClient(ct, 0)
	l.server = modbus.NewServer(id, st, l.regs, 0)
	go l.server.Listen(func(err error) {
		select {
		case l.errs <- err:
		default:
		}
	}, func() {}, func() { close(l.done) })
	return l
}

func (l *c19Link) close() {
	// (over net.Pipe the server's SetDeadline fails once the peer is closed, so it
	// never sees the EOF a real socket would give: stop it explicitly)
	go l.server.Close()
	l.client.Close()
	select {
	case <-l.done:
	case <-time.After(5 * time.Second):
	}
}

type c19Case struct {
	Transport string `json:"transport"`
	Map       string `json:"register_map"`
	Op        string `json:"op"`
	Addr      int    `json:"addr"`
	Count     int    `json:"count_or_value"`
}

func (l *c19Link) readBits(p *mc.Part, fc byte, addr, count int) {
	var got []bool
	var err error
	op := "ReadCoils"
	if fc == 1 {
		got, err = l.client.ReadCoils(l.id, uint16(addr), uint16(count))
	} else {
		op = "ReadDiscreteInputs"
		got, err = l.client.ReadDiscreteInputs(l.id, uint16(addr), uint16(count))
	}
	p.Case(true)
	p.Step(1)
	want := refProcess(fc, be(addr, count), l.ref)
	cs := c19Case{l.kind, l.spec.Name, op, addr, count}
	size := "count<=8"
	if count > 8 {
		size = "count>8"
	}
	if count > 1500 {
		size = "count>1500"
	}
	if want.kind == kNormal {
		if err != nil {
			p.Violation("legal-read-failed/"+op+"/"+size+"/"+l.kind, fmt.Sprintf("%s %s(addr=%d,count=%d) on %s: server holds the data but client returned error: %v", l.kind, op, addr, count, l.spec.Name, err), cs)
			l.resync()
			return
		}
		if len(got) != count {
			p.Violation("wrong-number-of-values/"+op+"/"+size, fmt.Sprintf("%s %s(addr=%d,count=%d) on %s returned %d values", l.kind, op, addr, count, l.spec.Name, len(got)), cs)
			l.resync()
			return
		}
		for i := 0; i < count; i++ {
			w := want.data[1+i/8]&(1<<(i%8)) != 0
			if got[i] != w {
				p.Violation("wrong-value/"+op, fmt.Sprintf("%s %s(addr=%d,count=%d) on %s: value %d is %v, server holds %v", l.kind, op, addr, count, l.spec.Name, i, got[i], w), cs)
				return
			}
		}
	} else if err == nil {
		p.Violation("data-for-illegal-read/"+op, fmt.Sprintf("%s %s(addr=%d,count=%d) on %s: server must refuse, client returned %d values", l.kind, op, addr, count, l.spec.Name, len(got)), cs)
	}
}

func (l *c19Link) readRegs(p *mc.Part, fc byte, addr, count int) {
	var got []uint16
	var err error
	op := "ReadHoldingRegs"
	if fc == 3 {
		got, err = l.client.ReadHoldingRegs(l.id, uint16(addr), uint16(count))
	} else {
		op = "ReadInputRegs"
		got, err = l.client.ReadInputRegs(l.id, uint16(addr), uint16(count))
	}
	p.Case(true)
	p.Step(1)
	want := refProcess(fc, be(addr, count), l.ref)
	cs := c19Case{l.kind, l.spec.Name, op, addr, count}
	size := "count<=97"
	if count > 97 {
		size = "count>97"
	}
	if want.kind == kNormal {
		if err != nil {
			p.Violation("legal-read-failed/"+op+"/"+size+"/"+l.kind, fmt.Sprintf("%s %s(addr=%d,count=%d) on %s: server holds the data but client returned error: %v", l.kind, op, addr, count, l.spec.Name, err), cs)
			l.resync()
			return
		}
		if len(got) != count {
			p.Violation("wrong-number-of-values/"+op, fmt.Sprintf("%s %s(addr=%d,count=%d) on %s returned %d values", l.kind, op, addr, count, l.spec.Name, len(got)), cs)
			return
		}
		for i := 0; i < count; i++ {
			w := uint16(u16(want.data[1+2*i:]))
			if got[i] != w {
				p.Violation("wrong-value/"+op, fmt.Sprintf("%s %s(addr=%d,count=%d) on %s: value %d is %#x, server holds %#x", l.kind, op, addr, count, l.spec.Name, i, got[i], w), cs)
				return
			}
		}
	} else if err == nil {
		p.Violation("data-for-illegal-read/"+op, fmt.Sprintf("%s %s(addr=%d,count=%d) on %s: server must refuse, client returned %d values", l.kind, op, addr, count, l.spec.Name, len(got)), cs)
	}
}

// resync: after a failed transaction stale response bytes may sit in the pipe.
func (l *c19Link) resync() {
	l.bad++
	time.Sleep(2 * time.Millisecond)
	if l.kind == "rtu" {
		l.rtuC.drain()
		return
	}
	buf := make([]byte, 4096)
	for {
		l.tcpC.SetReadDeadline(time.Now().Add(3 * time.Millisecond))
		if _, err := l.tcpC.Read(buf); err != nil {
			break
		}
	}
	l.tcpC.SetReadDeadline(time.Time{})
}

func (l *c19Link) write(p *mc.Part, fc byte, addr, val int) {
	var err error
	op := "WriteSingleCoil"
	if fc == 5 {
		err = l.client.WriteSingleCoil(l.id, uint16(addr), val != 0)
		if val != 0 {
			val = 0xff00
		}
	} else {
		op = "WriteSingleReg"
		err = l.client.WriteSingleReg(l.id, uint16(addr), uint16(val))
	}
	p.Case(true)
	p.Step(1)
	want := refProcess(fc, be(addr, val), l.ref)
	cs := c19Case{l.kind, l.spec.Name, op, addr, val}
	if want.kind == kNormal {
		if err != nil {
			p.Violation("legal-write-failed/"+op, fmt.Sprintf("%s %s(addr=%d,value=%#x) on %s: %v", l.kind, op, addr, val, l.spec.Name, err), cs)
			l.resync()
			return
		}
		l.ref = want.after
	} else if err == nil {
		p.Violation("illegal-write-acknowledged/"+op, fmt.Sprintf("%s %s(addr=%d,value=%#x) on %s: server must refuse", l.kind, op, addr, val, l.spec.Name), cs)
	}
	if got, w := l.spec.snapshot(l.regs), l.ref.snapshot(l.spec); got != w {
		p.Violation("server-content-after-write/"+op, fmt.Sprintf("%s %s(addr=%d,value=%#x) on %s: server holds %s, expected %s", l.kind, op, addr, val, l.spec.Name, got, w), cs)
	}
}

// scripted transport port for the frame-rejection part: answers every request
// with a prepared frame.
type scriptPort struct {
	answer func(req []byte) []byte
	pend   []byte
}

func (s *scriptPort) Write(b []byte) (int, error) { s.pend = s.answer(b); return len(b), nil }
func (s *scriptPort) Read(b []byte) (int, error) {
	if len(s.pend) == 0 {
		return 0, errors.New("timeout")
	}
	n := copy(b, s.pend)
	s.pend = s.pend[n:]
	return n, nil
}
func (s *scriptPort) Close() error { return nil }

type scriptConn struct {
	scriptPort
}

func (s *scriptConn) LocalAddr() net.Addr                { return nil }
func (s *scriptConn) RemoteAddr() net.Addr               { return nil }
func (s *scriptConn) SetDeadline(t time.Time) error      { return nil }
func (s *scriptConn) SetReadDeadline(t time.Time) error  { return nil }
func (s *scriptConn) SetWriteDeadline(t time.Time) error { return nil }

func checkC19(r *mc.Report, thorough bool) {
	maps := []regMapSpec{c18Maps[1], c18Maps[2], c18Maps[4], c18Maps[5], c18Maps[6],
		{Name: "dense0-255/pattern", Addrs: seqU16(0, 256), Init: 0xa5c3}}
	// ---- end to end
	p := r.Part("end-to-end", "real Client <-> real Server.Listen over RTU (packet pipe) and TCP (net.Pipe), unit ids 1 and 247, 6 register maps: every bit count 1..2000 and every register count 1..125 (plus 0 and limit+1) at an address alphabet; single writes of every value alphabet entry followed by read-back; compared with the reference register file")
	type job struct {
		kind string
		spec regMapSpec
		id   byte
	}
	var jobs []job
	for _, k := range []string{"rtu", "tcp"} {
		for i, s := range maps {
			jobs = append(jobs, job{k, s, []byte{1, 247}[i%2]})
		}
	}
	bitStep, regAddrs, bitAddrs := 1, []int{0, 1, 5, 131, 255, 0xfffe, 0xffff}, []int{0, 3, 16, 80, 2096, 4095, 0xfff0}
	if !thorough {
		bitAddrs = []int{0, 3, 2096}
		regAddrs = []int{0, 5, 131, 0xffff}
	}
	mc.ParallelFor(len(jobs), func(ji int) {
		j := jobs[ji]
		l := newLink(j.kind, j.spec, j.id)
		defer l.close()
		for _, a := range bitAddrs {
			for c := 0; c <= 2001; c += bitStep {
				fc := byte(1 + (c+a)%2)
				l.readBits(p, fc, a, c)
				if l.bad > 3 {
					p.Cap("link abandoned after 4 failed transactions (violations reported)")
					return
				}
			}
		}
		for _, a := range regAddrs {
			for c := 0; c <= 126; c++ {
				l.readRegs(p, byte(3+(c+a)%2), a, c)
				if l.bad > 3 {
					p.Cap("link abandoned after 4 failed transactions (violations reported)")
					return
				}
			}
		}
		// writes then read back
		for _, a := range []int{0, 1, 2, 5, 16, 17, 33, 80, 255, 0xffff, 0xfff0} {
			for _, v := range []int{0, 1, 2, 3, 0x8000, 0xffff, 0x1234} {
				l.write(p, 6, a, v)
				l.readRegs(p, 3, a, 1)
				l.readRegs(p, 4, a&^1, 2)
			}
			for _, v := range []int{1, 0, 1} {
				l.write(p, 5, a, v)
				l.readBits(p, 1, a, 1)
				l.readBits(p, 2, a&^7, 9)
			}
		}
	})
	p.Done()
	r.AddSample(map[string]any{"part": "end-to-end", "case": c19Case{"rtu", "dense0-255/pattern", "ReadCoils", 3, 1999}})

	// ---- transaction id wrap
	p = r.Part("tcp-transaction-ids", "65 537 consecutive TCP transactions on one connection (transaction id wraps), alternating read and write")
	{
		l := newLink("tcp", c18Maps[5], 1)
		for i := 0; i < 65537; i++ {
			if i%3 == 0 {
				l.write(p, 6, 2, i&0xfffe)
			} else {
				l.readRegs(p, 3, 2, 1)
			}
			if l.bad > 3 || p.Violations() > 5 {
				break
			}
		}
		l.close()
	}
	p.Done()

	// ---- frame rejection
	p = r.Part("frame-rejection", "client against a scripted port: for 6 request kinds the correct RTU/TCP response with every single-byte substitution (256 x every position, RTU), every truncation (both), every wrong transaction id low/high byte (TCP): the client returns an error, or exactly the true data; never other data")
	type rq struct {
		name string
		fc   byte
		addr int
		cnt  int
	}
	rqs := []rq{{"ReadCoils", 1, 0, 12}, {"ReadDiscreteInputs", 2, 3, 8}, {"ReadHoldingRegs", 3, 0, 3}, {"ReadInputRegs", 4, 1, 1}, {"WriteSingleCoil", 5, 4, 1}, {"WriteSingleReg", 6, 2, 0x1234}}
	spec := c18Maps[5]
	for _, kind := range []string{"rtu", "tcp"} {
		for _, q := range rqs {
			ref := spec.ref()
			d := be(q.addr, q.cnt)
			if q.fc == 5 {
				d = be(q.addr, 0xff00)
			}
			want := refProcess(q.fc, d, ref)
			goodPDU := modbus.PDU{FunctionCode: modbus.FunctionCode(want.fc), Data: want.data}
			type mut struct {
				name string
				f    func(frame []byte) []byte
				must bool // must be rejected
			}
			var muts []mut
			frameLen := len(want.data) + 4
			if kind == "tcp" {
				frameLen = len(want.data) + 8
			}
			for cut := 0; cut < frameLen; cut++ {
				cut := cut
				muts = append(muts, mut{fmt.Sprintf("truncate-to-%d", cut), func(f []byte) []byte { return f[:cut] }, true})
			}
			if kind == "rtu" {
				for pos := 0; pos < frameLen; pos++ {
					for x := 1; x < 256; x++ {
						pos, x := pos, x
						muts = append(muts, mut{fmt.Sprintf("xor-%d-with-%02x", pos, x), func(f []byte) []byte { g := append([]byte{}, f...); g[pos] ^= byte(x); return g }, true})
					}
				}
			} else {
				for _, pos := range []int{0, 1} {
					for x := 1; x < 256; x++ {
						pos, x := pos, x
						muts = append(muts, mut{fmt.Sprintf("txid-byte%d-xor-%02x", pos, x), func(f []byte) []byte { g := append([]byte{}, f...); g[pos] ^= byte(x); return g }, true})
					}
				}
			}
			muts = append(muts, mut{"unchanged", func(f []byte) []byte { return f }, false})
			for _, m := range muts {
				var tr modbus.Transport
				var sp *scriptPort
				if kind == "rtu" {
					sp = &scriptPort{}
					tr = modbus.NewRTU(sp)
				} else {
					sc := &scriptConn{}
					sp = &sc.scriptPort
					tr = modbus.NewTCP(sc, time.Second, modbus.TransportClient)
				}
				enc := tr
				if kind == "tcp" {
					// server-side encoder echoing the request's transaction id
					enc = nil
				}
				sp.answer = func(req []byte) []byte {
					var frame []byte
					if kind == "rtu" {
						frame, _ = enc.Encode(1, goodPDU)
					} else {
						frame = make([]byte, 8+len(goodPDU.Data))
						copy(frame[0:2], req[0:2])
						binary.BigEndian.PutUint16(frame[4:], uint16(len(goodPDU.Data)+2))
						frame[6] = 1
						frame[7] = byte(goodPDU.FunctionCode)
						copy(frame[8:], goodPDU.Data)
					}
					return m.f(frame)
				}
				c := modbus.NewClient(tr, 0)
				var err error
				var bits []bool
				var regs []uint16
				pan := mc.Safely(func() {
					switch q.fc {
					case 1:
						bits, err = c.ReadCoils(1, uint16(q.addr), uint16(q.cnt))
					case 2:
						bits, err = c.ReadDiscreteInputs(1, uint16(q.addr), uint16(q.cnt))
					case 3:
						regs, err = c.ReadHoldingRegs(1, uint16(q.addr), uint16(q.cnt))
					case 4:
						regs, err = c.ReadInputRegs(1, uint16(q.addr), uint16(q.cnt))
					case 5:
						err = c.WriteSingleCoil(1, uint16(q.addr), true)
					case 6:
						err = c.WriteSingleReg(1, uint16(q.addr), uint16(q.cnt))
					}
				})
				p.Case(true)
				p.Step(1)
				cs := map[string]any{"transport": kind, "request": q.name, "mutation": m.name}
				if pan != "" {
					p.Violation("client-panic/"+q.name, fmt.Sprintf("%s %s with response %s: client panicked: %s", kind, q.name, m.name, pan), cs)
					continue
				}
				if m.must && err == nil {
					p.Violation("bad-frame-accepted/"+kind+"/"+q.name, fmt.Sprintf("%s %s: response frame %s was accepted (bits=%v regs=%v)", kind, q.name, m.name, bits, regs), cs)
				}
				if !m.must && err != nil {
					p.Violation("good-frame-rejected/"+kind+"/"+q.name, fmt.Sprintf("%s %s: correct response rejected: %v", kind, q.name, err), cs)
				}
			}
		}
	}
	// late response: request A times out, its response arrives when the client has already sent request B
	for _, kind := range []string{"tcp", "rtu"} {
		var tr modbus.Transport
		var sp *scriptPort
		if kind == "rtu" {
			sp = &scriptPort{}
			tr = modbus.NewRTU(sp)
		} else {
			sc := &scriptConn{}
			sp = &sc.scriptPort
			tr = modbus.NewTCP(sc, time.Second, modbus.TransportClient)
		}
		var late []byte
		calls := 0
		sp.answer = func(req []byte) []byte {
			calls++
			if calls == 1 {
				// the answer to A (register 2 = 0x1111) is produced but delivered late
				if kind == "tcp" {
					late = []byte{req[0], req[1], 0, 0, 0, 5, 1, 3, 2, 0x11, 0x11}
				} else {
					late, _ = tr.Encode(1, modbus.PDU{FunctionCode: 3, Data: []byte{2, 0x11, 0x11}})
				}
				return nil
			}
			return late // B receives A's stale frame first
		}
		c := modbus.NewClient(tr, 0)
		_, errA := c.ReadHoldingRegs(1, 2, 1)
		regs, errB := c.ReadHoldingRegs(1, 3, 1)
		p.Case(true)
		p.Step(2)
		if errA == nil {
			p.Violation("timeout-not-reported/"+kind, "request without any response returned no error", nil)
		}
		// over RTU nothing in the frame tells A's answer from B's (no transaction id): only TCP must reject it
		if kind == "tcp" && errB == nil {
			p.Violation("stale-response-accepted/tcp", fmt.Sprintf("the late response to the previous (timed-out) transaction was returned as the answer to the next request: %v", regs), map[string]any{"transport": kind, "request": "ReadHoldingRegs", "mutation": "late response of previous transaction"})
		}
	}
	p.Done()

	// ---- conversions
	convPart := "all 2^32 register pairs / values through the 6 inverse pairs of 32-bit converters (both word orders; floats bit-exact incl. NaN payloads) and all 2^16 through RegsToInt16"
	hiVals := 1 << 16
	loStep := 1
	if !thorough {
		convPart = "32-bit converters: all 2^16 high words x 24 boundary low words and all 2^16 low words x 24 boundary high words (12 functions, both word orders; floats bit-exact); all 2^16 through RegsToInt16"
	}
	p = r.Part("conversions", convPart)
	bnd := []uint32{0, 1, 2, 0x7f, 0x80, 0xff, 0x100, 0x7fff, 0x8000, 0x8001, 0xfffe, 0xffff, 0x7f80, 0x7fc0, 0xff80, 0xffc0, 0x0080, 0x3f80, 0xbf80, 0x4000, 0xaaaa, 0x5555, 0x1234, 0xfedc}
	convCheck := func(vals []uint32) {
		regs := make([]uint16, 2*len(vals))
		for i, v := range vals {
			regs[2*i], regs[2*i+1] = uint16(v>>16), uint16(v)
		}
		// regs -> value -> regs
		fail := func(name string, i int) {
			p.Violation("conversion/"+name, fmt.Sprintf("%s is not the exact inverse at %#08x", name, vals[i]), map[string]any{"fn": name, "value": vals[i]})
		}
		cmp := func(name string, back []uint16) {
			for i := range regs {
				if back[i] != regs[i] {
					fail(name, i/2)
					return
				}
			}
		}
		cmp("Uint32ToRegs(RegsToUint32)", modbus.Uint32ToRegs(modbus.RegsToUint32(regs)))
		cmp("Uint32ToRegsSwapRegs(RegsToUint32SwapWords)", modbus.Uint32ToRegsSwapRegs(modbus.RegsToUint32SwapWords(regs)))
		cmp("Int32ToRegs(RegsToInt32)", modbus.Int32ToRegs(modbus.RegsToInt32(regs)))
		cmp("Int32ToRegsSwapWords(RegsToInt32SwapWords)", modbus.Int32ToRegsSwapWords(modbus.RegsToInt32SwapWords(regs)))
		cmp("Float32ToRegs(RegsToFloat32)", modbus.Float32ToRegs(modbus.RegsToFloat32(regs)))
		cmp("Float32ToRegsSwapWords(RegsToFloat32SwapWords)", modbus.Float32ToRegsSwapWords(modbus.RegsToFloat32SwapWords(regs)))
		// value -> regs -> value, and the value itself is the big-endian reading
		u := modbus.RegsToUint32(regs)
		us := modbus.RegsToUint32SwapWords(regs)
		in := modbus.RegsToInt32(regs)
		ins := modbus.RegsToInt32SwapWords(regs)
		fl := modbus.RegsToFloat32(regs)
		fls := modbus.RegsToFloat32SwapWords(regs)
		for i, v := range vals {
			sw := v<<16 | v>>16
			if u[i] != v || us[i] != sw || in[i] != int32(v) || ins[i] != int32(sw) || math.Float32bits(fl[i]) != v || math.Float32bits(fls[i]) != sw {
				fail("RegsTo*", i)
				return
			}
		}
		p.Cases(int64(len(vals)), int64(len(vals)))
		p.Step(int64(12 * len(vals)))
	}
	if thorough {
		mc.ParallelFor(hiVals, func(hi int) {
			vals := make([]uint32, 0, 65536)
			for lo := 0; lo < 65536; lo += loStep {
				vals = append(vals, uint32(hi)<<16|uint32(lo))
			}
			convCheck(vals)
		})
	} else {
		mc.ParallelFor(len(bnd), func(bi int) {
			v1 := make([]uint32, 0, 65536)
			v2 := make([]uint32, 0, 65536)
			for x := 0; x < 65536; x++ {
				v1 = append(v1, uint32(x)<<16|bnd[bi])
				v2 = append(v2, bnd[bi]<<16|uint32(x))
			}
			convCheck(v1)
			convCheck(v2)
		})
	}
	all16 := make([]uint16, 65536)
	for i := range all16 {
		all16[i] = uint16(i)
	}
	i16 := modbus.RegsToInt16(all16)
	for i := range all16 {
		if uint16(i16[i]) != all16[i] || i16[i] != int16(all16[i]) {
			p.Violation("conversion/RegsToInt16", fmt.Sprintf("RegsToInt16(%#x) = %d", all16[i], i16[i]), nil)
			break
		}
	}
	b16 := modbus.Uint16Array(modbus.PutUint16Array(all16...))
	for i := range all16 {
		if b16[i] != all16[i] {
			p.Violation("conversion/Uint16Array", fmt.Sprintf("Uint16Array(PutUint16Array(%#x)) = %#x", all16[i], b16[i]), nil)
			break
		}
	}
	p.Cases(2*65536, 2*65536)
	p.Done()
	checkC19RR(r, thorough)
	r.Assume("transports deliver whole packets per Read when the buffer is large enough (the documented contract of the RTU port); net.Pipe for TCP")
	r.Assume("TCP carries no checksum: only truncations and transaction-id mismatches must be rejected there")
}

func init() {
	register("C19", "exploration", checkC19)
	replayers["C19/end-to-end"] = func(v *mc.Violation) string {
		c := reinput[c19Case](v)
		var spec regMapSpec
		for _, s := range append(c18Maps, regMapSpec{Name: "dense0-255/pattern", Addrs: seqU16(0, 256), Init: 0xa5c3}) {
			if s.Name == c.Map {
				spec = s
			}
		}
		rr := mc.NewReport("/nonexistent", "C19", "quick", "exploration")
		p := rr.Part("replay", "")
		l := newLink(c.Transport, spec, 1)
		defer l.close()
		switch c.Op {
		case "ReadCoils":
			l.readBits(p, 1, c.Addr, c.Count)
		case "ReadDiscreteInputs":
			l.readBits(p, 2, c.Addr, c.Count)
		case "ReadHoldingRegs":
			l.readRegs(p, 3, c.Addr, c.Count)
		case "ReadInputRegs":
			l.readRegs(p, 4, c.Addr, c.Count)
		case "WriteSingleCoil":
			l.write(p, 5, c.Addr, c.Count)
		case "WriteSingleReg":
			l.write(p, 6, c.Addr, c.Count)
		}
		if p.Violations() > 0 {
			return "violation reproduced: " + c.Op
		}
		return ""
	}
}
