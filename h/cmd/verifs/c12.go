package main

import (
	"bytes"
	"encoding/hex"
	"fmt"
	"math"
	"strings"
	"time"

	"github.com/kjx98/crc16"
	"github.com/nats-io/nats.go"
	"github.com/simpleiot/simpleiot/client"
	"github.com/simpleiot/simpleiot/data"
	"google.golang.org/protobuf/encoding/protowire"
	"verif/h/mc"
)

// C12: wire encodings are lossless; decoders are total.

type c12Pt struct {
	TimeNs    int64  `json:"time_unix_ns"`
	TimeStr   string `json:"time"`
	Type      string `json:"type"`
	Key       string `json:"key"`
	ValueBits uint64 `json:"value_bits"`
	Text      string `json:"text"`
	DataHex   string `json:"data_hex"`
	DataNil   bool   `json:"data_nil"`
	Tombstone int    `json:"tombstone"`
	Origin    string `json:"origin"`
}

func c12Desc(p data.Point) c12Pt {
	return c12Pt{p.Time.UnixNano(), p.Time.UTC().Format(time.RFC3339Nano), p.Type, p.Key, math.Float64bits(p.Value), p.Text, hex.EncodeToString(p.Data), p.Data == nil, p.Tombstone, p.Origin}
}

func ptEq(a, b data.Point) string {
	switch {
	case !a.Time.Equal(b.Time):
		return fmt.Sprintf("time %v != %v", a.Time.UTC(), b.Time.UTC())
	case a.Type != b.Type:
		return fmt.Sprintf("type %q != %q", a.Type, b.Type)
	case a.Key != b.Key:
		return fmt.Sprintf("key %q != %q", a.Key, b.Key)
	case math.Float64bits(a.Value) != math.Float64bits(b.Value):
		return fmt.Sprintf("value bits %016x != %016x", math.Float64bits(a.Value), math.Float64bits(b.Value))
	case a.Text != b.Text:
		return fmt.Sprintf("text %q != %q", a.Text, b.Text)
	case !bytes.Equal(a.Data, b.Data):
		return fmt.Sprintf("data %x != %x", a.Data, b.Data)
	case a.Tombstone != b.Tombstone:
		return fmt.Sprintf("tombstone %d != %d", a.Tombstone, b.Tombstone)
	case a.Origin != b.Origin:
		return fmt.Sprintf("origin %q != %q", a.Origin, b.Origin)
	}
	return ""
}

func ptsEq(a, b []data.Point) string {
	if len(a) != len(b) {
		return fmt.Sprintf("%d points became %d", len(a), len(b))
	}
	for i := range a {
		if d := ptEq(a[i], b[i]); d != "" {
			return fmt.Sprintf("point %d: %s", i, d)
		}
	}
	return ""
}

func firstField(diff string) string {
	if i := strings.IndexAny(diff, " :"); i > 0 {
		f := diff[:i]
		if f == "point" {
			rest := diff[strings.Index(diff, ": ")+2:]
			return firstField(rest)
		}
		return f
	}
	return diff
}

var (
	c12Times = []time.Time{
		{},
		time.Unix(0, 0), time.Unix(0, 1), time.Unix(0, -1),
		time.Unix(0, math.MaxInt64), time.Unix(0, math.MinInt64),
		time.Date(9999, 12, 31, 23, 59, 59, 999999999, time.UTC),
		time.Date(2024, 2, 29, 12, 0, 0, 123456789, time.FixedZone("x", 5*3600+1800)),
	}
	c12ValBits = []uint64{0, 1 << 63, math.Float64bits(1), math.Float64bits(-1.5), 1, math.Float64bits(math.MaxFloat64),
		math.Float64bits(math.Inf(1)), math.Float64bits(math.Inf(-1)), 0x7ff8000000000001, 0x7ff0000000000001, 0xfff8000000000000, math.Float64bits(0.1)}
	c12Strs  = []string{"", "a", "\x00", "é✓", "😀", strings.Repeat("long", 75), "p.x", "0"}
	c12Datas = [][]byte{nil, {}, {0}, {0xff, 0x00, 0x80}, bytes.Repeat([]byte{0xaa}, 300)}
	c12Tombs = []int{0, 1, 2, -1, math.MaxInt32, math.MinInt32}
)

func c12RoundPoints(pts data.Points) string {
	in := append(data.Points{}, pts...)
	b, err := in.ToPb()
	if err != nil {
		return "encode-error: " + err.Error()
	}
	out, err := data.PbDecodePoints(b)
	if err != nil {
		return "decode-error: " + err.Error()
	}
	return ptsEq(pts, out)
}

func nodeEq(a, b data.NodeEdge) string {
	switch {
	case a.ID != b.ID:
		return fmt.Sprintf("id %q != %q", a.ID, b.ID)
	case a.Type != b.Type:
		return fmt.Sprintf("nodetype %q != %q", a.Type, b.Type)
	case a.Parent != b.Parent:
		return fmt.Sprintf("parent %q != %q", a.Parent, b.Parent)
	case a.Hash != b.Hash:
		return fmt.Sprintf("hash %d != %d", a.Hash, b.Hash)
	}
	if d := ptsEq(a.Points, b.Points); d != "" {
		return "points: " + d
	}
	if d := ptsEq(a.EdgePoints, b.EdgePoints); d != "" {
		return "edgepoints: " + d
	}
	return ""
}

// c12NodesRequestBytes builds the reply wire format (pb.NodesRequest) from
// encoded nodes, as store.handleNodesRequest emits it.
func c12NodesRequestBytes(nodes []data.NodeEdge, errStr string) ([]byte, error) {
	var b []byte
	for i := range nodes {
		nb, err := nodes[i].ToPb()
		if err != nil {
			return nil, err
		}
		b = protowire.AppendTag(b, 1, protowire.BytesType)
		b = protowire.AppendBytes(b, nb)
	}
	if errStr != "" {
		b = protowire.AppendTag(b, 2, protowire.BytesType)
		b = protowire.AppendString(b, errStr)
	}
	return b, nil
}

type decoder struct {
	name string
	f    func(b []byte)
}

func c12Decoders() []decoder {
	msg := func(sub string, b []byte) *nats.Msg { return &nats.Msg{Subject: sub, Data: b} }
	return []decoder{
		{"PbDecodePoints", func(b []byte) { _, _ = data.PbDecodePoints(b) }},
		{"PbDecodeNode", func(b []byte) { _, _ = data.PbDecodeNode(b) }},
		{"PbDecodeNodes", func(b []byte) { _, _ = data.PbDecodeNodes(b) }},
		{"PbDecodeNodeRequest", func(b []byte) { _, _ = data.PbDecodeNodeRequest(b) }},
		{"PbDecodeNodesRequest", func(b []byte) { _, _ = data.PbDecodeNodesRequest(b) }},
		{"PbDecodeSerialPoints", func(b []byte) { _, _ = data.PbDecodeSerialPoints(b) }},
		{"DecodeSerialHrPayload", func(b []byte) { _ = data.DecodeSerialHrPayload(b, func(data.Point) {}) }},
		{"SerialDecode", func(b []byte) { _, _, _, _ = client.SerialDecode(b) }},
		{"SerialDecode+PbDecodeSerialPoints", func(b []byte) {
			_, _, pl, err := client.SerialDecode(b)
			if err == nil {
				_, _ = data.PbDecodeSerialPoints(pl)
			}
		}},
		{"DecodeNodePointsMsg", func(b []byte) { _, _, _ = client.DecodeNodePointsMsg(msg("p.n", b)) }},
		{"DecodeEdgePointsMsg", func(b []byte) { _, _, _, _ = client.DecodeEdgePointsMsg(msg("p.n.p", b)) }},
		{"DecodeUpNodePointsMsg", func(b []byte) { _, _, _, _ = client.DecodeUpNodePointsMsg(msg("up.u.n", b)) }},
		{"DecodeUpEdgePointsMsg", func(b []byte) { _, _, _, _, _ = client.DecodeUpEdgePointsMsg(msg("up.u.n.p", b)) }},
	}
}

type c12Bytes struct {
	Decoder string `json:"decoder"`
	Hex     string `json:"hex"`
	Subject string `json:"subject,omitempty"`
}

func checkC12(r *mc.Report, thorough bool) {
	// ---- round trip: single points, full cross product (quick: strings varied one field at a time)
	type strCombo struct{ typ, key, text, origin string }
	var combos []strCombo
	if thorough {
		for _, a := range c12Strs {
			for _, b := range c12Strs {
				for _, c := range c12Strs {
					for _, d := range c12Strs {
						combos = append(combos, strCombo{a, b, c, d})
					}
				}
			}
		}
	} else {
		for _, s := range c12Strs {
			combos = append(combos, strCombo{s, "k", "t", "o"}, strCombo{"ty", s, "t", "o"}, strCombo{"ty", "k", s, "o"}, strCombo{"ty", "k", "t", s}, strCombo{s, s, s, s})
		}
	}
	p := r.Part("point-roundtrip", fmt.Sprintf("Points.ToPb -> PbDecodePoints of single points: %d times x %d value bit patterns x %d string combinations (type,key,text,origin) x %d data x %d tombstones; compared field by field, value bit-wise", len(c12Times), len(c12ValBits), len(combos), len(c12Datas), len(c12Tombs)))
	mc.ParallelFor(len(combos), func(ci int) {
		c := combos[ci]
		for _, t := range c12Times {
			for _, vb := range c12ValBits {
				for _, d := range c12Datas {
					for _, tomb := range c12Tombs {
						pt := data.Point{Time: t, Type: c.typ, Key: c.key, Value: math.Float64frombits(vb), Text: c.text, Data: d, Tombstone: tomb, Origin: c.origin}
						p.Case(true)
						p.Step(1)
						var diff string
						if pan := mc.Safely(func() { diff = c12RoundPoints(data.Points{pt}) }); pan != "" {
							diff = "panic: " + pan
						}
						if diff != "" {
							p.Violation("point-roundtrip/"+firstField(diff), "point does not survive ToPb/PbDecodePoints: "+diff, []c12Pt{c12Desc(pt)})
						}
					}
				}
			}
		}
	})
	p.Done()
	r.AddSample(map[string]any{"part": "point-roundtrip", "point": c12Desc(data.Point{Time: c12Times[4], Type: "é✓", Key: "\x00", Value: math.Float64frombits(0x7ff0000000000001), Data: []byte{0xff, 0, 0x80}, Tombstone: math.MinInt32, Origin: "😀"})})

	// ---- lists and nodes
	var mix []data.Point
	for i := 0; i < 12; i++ {
		mix = append(mix, data.Point{Time: c12Times[i%len(c12Times)], Type: c12Strs[i%len(c12Strs)], Key: c12Strs[(i+3)%len(c12Strs)], Value: math.Float64frombits(c12ValBits[i%len(c12ValBits)]),
			Text: c12Strs[(i+5)%len(c12Strs)], Data: c12Datas[i%len(c12Datas)], Tombstone: c12Tombs[i%len(c12Tombs)], Origin: c12Strs[(i+1)%len(c12Strs)]})
	}
	// points of the types the schema itself gives a meaning to (a decoder must not treat them specially)
	mix = append(mix, data.Point{Time: c12Times[1], Type: data.PointTypeNodeType, Text: "device"},
		data.Point{Time: c12Times[2], Type: data.PointTypeTombstone, Value: 1, Origin: "o"})
	p = r.Part("node-roundtrip", "nodes over ids/types/parents x hash {0,1,2^31,2^32-1} x 0..2 points x 0..2 edge points (all ordered selections from a 14-point mix, incl. points of the schema's own types nodeType and tombstone) through ToPb->PbDecodeNode, Nodes.ToPb->PbDecodeNodes, reply format->PbDecodeNodesRequest / PbDecodeNodeRequest; lists of 0..3 points keep order")
	var ptLists [][]data.Point
	ptLists = append(ptLists, nil)
	for i := range mix {
		ptLists = append(ptLists, []data.Point{mix[i]})
	}
	for i := range mix {
		for j := range mix {
			ptLists = append(ptLists, []data.Point{mix[i], mix[j]})
		}
	}
	// order of lists
	for i := range mix {
		for j := range mix {
			for k := 0; k < len(mix); k += 5 {
				l := data.Points{mix[i], mix[j], mix[k]}
				p.Case(true)
				if d := c12RoundPoints(l); d != "" {
					p.Violation("list-roundtrip/"+firstField(d), "point list does not survive: "+d, []c12Pt{c12Desc(mix[i]), c12Desc(mix[j]), c12Desc(mix[k])})
				}
			}
		}
	}
	hashes := []uint32{0, 1, 1 << 31, math.MaxUint32}
	ids := []string{"", "id1", "é✓", strings.Repeat("u", 36)}
	stepL := 1
	if !thorough {
		stepL = 7
	}
	mc.ParallelFor(len(ptLists), func(li int) {
		for ei := li % stepL; ei < len(ptLists); ei += stepL {
			for hi, h := range hashes {
				n := data.NodeEdge{ID: ids[hi], Type: ids[(hi+1)%4], Parent: ids[(hi+2)%4], Hash: h, Points: ptLists[li], EdgePoints: ptLists[ei]}
				p.Case(true)
				p.Step(4)
				var diff string
				if pan := mc.Safely(func() {
					b, err := n.ToPb()
					if err != nil {
						diff = "encode-error: " + err.Error()
						return
					}
					out, err := data.PbDecodeNode(b)
					if err != nil {
						diff = "decode-error: " + err.Error()
						return
					}
					if diff = nodeEq(n, out); diff != "" {
						return
					}
					ns := data.Nodes{n, n}
					b, err = ns.ToPb()
					if err != nil {
						diff = "nodes encode-error: " + err.Error()
						return
					}
					outs, err := data.PbDecodeNodes(b)
					if err != nil || len(outs) != 2 {
						diff = fmt.Sprintf("PbDecodeNodes: %v, %d nodes", err, len(outs))
						return
					}
					if diff = nodeEq(n, outs[1]); diff != "" {
						return
					}
					b, err = c12NodesRequestBytes([]data.NodeEdge{n, n, n}, "")
					if err != nil {
						diff = "encode-error: " + err.Error()
						return
					}
					outs, err = data.PbDecodeNodesRequest(b)
					if err != nil || len(outs) != 3 {
						diff = fmt.Sprintf("PbDecodeNodesRequest: %v, %d nodes", err, len(outs))
						return
					}
					if diff = nodeEq(n, outs[2]); diff != "" {
						return
					}
					// NodeRequest{node=1}
					nb, _ := n.ToPb()
					rb := protowire.AppendBytes(protowire.AppendTag(nil, 1, protowire.BytesType), nb)
					out, err = data.PbDecodeNodeRequest(rb)
					if err != nil {
						diff = "PbDecodeNodeRequest: " + err.Error()
						return
					}
					diff = nodeEq(n, out)
				}); pan != "" {
					diff = "panic: " + pan
				}
				if diff != "" {
					p.Violation("node-roundtrip/"+firstField(diff), "node does not survive the wire: "+diff, map[string]any{"id": n.ID, "type": n.Type, "parent": n.Parent, "hash": n.Hash, "points": len(n.Points), "edge_points": len(n.EdgePoints)})
				}
			}
		}
	})
	p.Done()

	// ---- totality
	decs := c12Decoders()
	try := func(p *mc.Part, b []byte) {
		for _, d := range decs {
			if pan := mc.Safely(func() { d.f(b) }); pan != "" {
				p.Violation("decoder-panic/"+d.name, fmt.Sprintf("%s panicked on %d bytes %x: %s", d.name, len(b), b[:min(len(b), 40)], pan), c12Bytes{Decoder: d.name, Hex: hex.EncodeToString(b)})
			}
		}
		p.Case(true)
		p.Step(int64(len(decs)))
	}
	maxAll := 2
	if thorough {
		maxAll = 3
	}
	p = r.Part("decoders-all-short", fmt.Sprintf("all byte strings of length 0..%d into each of %d decoders", maxAll, len(decs)))
	try(p, nil)
	try(p, []byte{})
	mc.ParallelFor(256, func(b0 int) {
		try(p, []byte{byte(b0)})
		for b1 := 0; b1 < 256; b1++ {
			try(p, []byte{byte(b0), byte(b1)})
			if maxAll >= 3 {
				for b2 := 0; b2 < 256; b2++ {
					try(p, []byte{byte(b0), byte(b1), byte(b2)})
				}
			}
		}
	})
	p.Done()

	// wire-aware alphabet: every field tag x wire type declared in point.proto/node.proto + boundary bytes
	alpha := []byte{0x00, 0x01, 0x02, 0x7f, 0x80, 0xff,
		0x0a, 0x12, 0x1a, 0x20, 0x32, 0x3a, // Node: id,type,points,hash,parent,edgePoints / Points.points / NodeRequest
		0x21, 0x25, 0x2a, 0x42, 0x5a, 0x60, 0x72, 0x7a, // Point: value(fixed64) / SerialPoint value(fixed32), time(msg), text, key, tombstone, data, origin
		0x08, 0x10, // Timestamp seconds, nanos
	}
	maxWA := 4
	if thorough {
		maxWA = 5
	}
	p = r.Part("decoders-wire-alphabet", fmt.Sprintf("all strings of length 3..%d over a %d-byte wire-aware alphabet (all declared field tags x wire types, 00 01 02 7f 80 ff)", maxWA, len(alpha)))
	mc.ParallelFor(len(alpha)*len(alpha), func(i int) {
		pre := []byte{alpha[i/len(alpha)], alpha[i%len(alpha)]}
		var rec func(cur []byte)
		rec = func(cur []byte) {
			if len(cur) >= 3 {
				try(p, cur)
			}
			if len(cur) == maxWA {
				return
			}
			for _, a := range alpha {
				rec(append(cur, a))
			}
		}
		rec(append([]byte{}, pre...))
	})
	p.Done()

	// mutations of valid encodings
	var valids [][]byte
	{
		pts := data.Points{mix[1], mix[2]}
		b, _ := pts.ToPb()
		valids = append(valids, b)
		n := data.NodeEdge{ID: "id1", Type: "ty", Parent: "pa", Hash: 77, Points: data.Points{mix[3]}, EdgePoints: data.Points{mix[7]}}
		nb, _ := n.ToPb()
		valids = append(valids, nb)
		ns := data.Nodes{n, n}
		nsb, _ := ns.ToPb()
		valids = append(valids, nsb)
		rb, _ := c12NodesRequestBytes([]data.NodeEdge{n}, "some error")
		valids = append(valids, rb)
		valids = append(valids, protowire.AppendString(protowire.AppendTag(nil, 2, protowire.BytesType), "not found"))
		sb, _ := client.SerialEncode(7, "p.x", data.Points{{Type: "temp", Key: "1", Value: 2.5, Time: time.Unix(0, 12345), Text: "t", Origin: "o"}})
		valids = append(valids, sb)
		lb, _ := client.SerialEncode(7, "log", nil)
		valids = append(valids, append(lb, []byte("hello log")...))
		hr := make([]byte, 44+8)
		copy(hr, "volt")
		copy(hr[16:], "A")
		hr[32] = 5
		hr[40] = 10
		valids = append(valids, hr)
	}
	p = r.Part("decoders-mutated-valid", fmt.Sprintf("%d valid encodings (points, node, nodes, replies with and without error, serial packets, high-rate payload): every truncation and every single-byte substitution (256 values x every position) into each decoder", len(valids)))
	mc.ParallelFor(len(valids), func(vi int) {
		v := valids[vi]
		for l := 0; l <= len(v); l++ {
			try(p, v[:l])
		}
		for pos := 0; pos < len(v); pos++ {
			for x := 0; x < 256; x++ {
				m := append([]byte{}, v...)
				m[pos] = byte(x)
				try(p, m)
			}
		}
	})
	p.Done()

	// serial packets of every short length WITH A VALID CHECKSUM (truncations never have one)
	p = r.Part("serial-valid-crc", "SerialDecode (+ PbDecodeSerialPoints) on packets of every total length 3..40 whose trailing CRC-16 is correct: bodies from {all 00, all ff, subject 'p.x', subject 'log', subject 'ack', protobuf-looking payload} x sequence byte {0,1,255}")
	for total := 3; total <= 40; total++ {
		for _, seq := range []byte{0, 1, 255} {
			for kind := 0; kind < 6; kind++ {
				body := make([]byte, total-2)
				body[0] = seq
				switch kind {
				case 1:
					for i := 1; i < len(body); i++ {
						body[i] = 0xff
					}
				case 2:
					copy(body[1:], "p.x")
				case 3:
					copy(body[1:], "log")
				case 4:
					copy(body[1:], "ack")
				case 5:
					copy(body[1:], "p.n")
					if len(body) > 17 {
						copy(body[17:], []byte{0x0a, 0x04, 0x12, 0x02, 0x61, 0x62, 0x0a, 0x00})
					}
				}
				crc := crc16.ChecksumCCITT(body)
				pkt := append(append([]byte{}, body...), byte(crc), byte(crc>>8))
				try(p, pkt)
			}
		}
	}
	p.Done()

	// subject parsers on malformed subjects
	// ---- the serial point format carries every field as well (values to float32 precision; framing itself is C17)
	p = r.Part("serial-point-roundtrip", "every point and every ordered pair of points of the 12-point mix through SerialEncode -> SerialDecode -> PbDecodeSerialPoints: time, type, key, value (float32), text, data, tombstone and origin come back")
	for i := range mix {
		for j := -1; j < len(mix); j++ {
			pts := data.Points{mix[i]}
			if j >= 0 {
				pts = append(pts, mix[j])
			}
			p.Case(true)
			p.Step(1)
			var d string
			if pan := mc.Safely(func() { d = c17Round(byte(i), "p.x", pts) }); pan != "" {
				d = "panic: " + pan
			}
			if d != "" && !strings.HasPrefix(d, "SerialEncode error") {
				var in []c12Pt
				for _, q := range pts {
					in = append(in, c12Desc(q))
				}
				p.Violation("serial-point-roundtrip/"+firstField(d), "point list does not survive the serial point format: "+d, in)
			}
		}
	}
	p.Done()

	// ---- results of successive calls are independent (no buffer shared between two results)
	p = r.Part("successive-calls", "for every ordered pair of inputs from the 12-point mix (and, for serial packets, 3 subjects x 2 sequence numbers): encode A, keep the bytes, encode B, decode both; decode A, keep the value, decode B: the first result must be byte for byte what it was before the second call and must decode to the same value as before it (the round trip itself is judged by the other parts) — for Points.ToPb/PbDecodePoints, NodeEdge.ToPb/PbDecodeNode, SerialEncode/SerialDecode+PbDecodeSerialPoints and the high-rate payload decoder")
	type encdec struct {
		name string
		enc  func(i int) ([]byte, error)
		dec  func(b []byte) (string, error) // canonical text of the decoded value
		want func(i int) string
	}
	subj := []string{"p.x", "", "ack"}
	canonPts := func(ps data.Points) string {
		var sb strings.Builder
		for _, q := range ps {
			d := c12Desc(q)
			fmt.Fprintf(&sb, "%+v;", d)
		}
		return sb.String()
	}
	serialPt := func(q data.Point) data.Point {
		// what the serial point format carries (see C17): no origin/data/tombstone? keep all fields the format has
		return q
	}
	_ = serialPt
	eds := []encdec{
		{"Points.ToPb", func(i int) ([]byte, error) { ps := data.Points{mix[i], mix[(i+1)%len(mix)]}; return ps.ToPb() },
			func(b []byte) (string, error) { o, err := data.PbDecodePoints(b); return canonPts(o), err },
			func(i int) string { return canonPts(data.Points{mix[i], mix[(i+1)%len(mix)]}) }},
		{"NodeEdge.ToPb", func(i int) ([]byte, error) {
			n := data.NodeEdge{ID: ids[i%4], Type: "t", Parent: "p", Hash: uint32(i), Points: data.Points{mix[i]}, EdgePoints: data.Points{mix[(i+2)%len(mix)]}}
			return n.ToPb()
		},
			func(b []byte) (string, error) {
				o, err := data.PbDecodeNode(b)
				return o.ID + "|" + canonPts(o.Points) + "|" + canonPts(o.EdgePoints) + fmt.Sprint(o.Hash), err
			},
			func(i int) string {
				return ids[i%4] + "|" + canonPts(data.Points{mix[i]}) + "|" + canonPts(data.Points{mix[(i+2)%len(mix)]}) + fmt.Sprint(uint32(i))
			}},
		{"SerialEncode", func(i int) ([]byte, error) {
			return client.SerialEncode(byte(i%2+1), subj[i%3], data.Points{mix[i], mix[(i+5)%len(mix)]})
		},
			func(b []byte) (string, error) {
				seq, sub, payload, err := client.SerialDecode(b)
				if err != nil {
					return "", err
				}
				ps, err := data.PbDecodeSerialPoints(payload)
				return fmt.Sprint(seq, "|", sub, "|", canonPts(ps)), err
			},
			nil},
	}
	for _, ed := range eds {
		for i := range mix {
			for j := range mix {
				p.Case(true)
				p.Step(4)
				var msg string
				if pan := mc.Safely(func() {
					a, err := ed.enc(i)
					if err != nil {
						return // inputs this encoder refuses are not the subject here
					}
					keep := append([]byte{}, a...)
					da, errA := ed.dec(a)
					bb, err := ed.enc(j)
					if err != nil {
						return
					}
					if !bytes.Equal(a, keep) {
						msg = fmt.Sprintf("%s: the bytes returned for input %d changed when input %d was encoded afterwards (the two results share memory)", ed.name, i, j)
						return
					}
					da2, errA2 := ed.dec(a)
					db, _ := ed.dec(bb)
					_ = db
					if da != da2 || (errA == nil) != (errA2 == nil) {
						msg = fmt.Sprintf("%s: result for input %d decodes differently after input %d was encoded/decoded: before %q after %q", ed.name, i, j, da, da2)
						return
					}
				}); pan != "" {
					msg = ed.name + ": panic: " + pan
				}
				if msg != "" {
					p.Violation("results-not-independent/"+ed.name, msg, []int{i, j})
				}
			}
		}
	}
	p.Done()

	p = r.Part("subject-parsers", "the four subject parsers on all subjects of length 0..6 over {'.','a','p'} plus documented forms, with empty/valid/garbage payloads")
	var subs []string
	var rec func(cur string)
	rec = func(cur string) {
		subs = append(subs, cur)
		if len(cur) == 6 {
			return
		}
		for _, c := range ".ap" {
			rec(cur + string(c))
		}
	}
	rec("")
	subs = append(subs, "p.n", "p.n.p", "up.u.n", "up.u.n.p", "up.none.x", strings.Repeat(".", 40))
	validPts, _ := (&data.Points{mix[1]}).ToPb()
	payloads := [][]byte{nil, validPts, {0xff}}
	mc.ParallelFor(len(subs), func(i int) {
		s := subs[i]
		for _, pl := range payloads {
			m := &nats.Msg{Subject: s, Data: pl}
			p.Case(true)
			p.Step(4)
			for name, f := range map[string]func(){
				"DecodeNodePointsMsg":   func() { _, _, _ = client.DecodeNodePointsMsg(m) },
				"DecodeEdgePointsMsg":   func() { _, _, _, _ = client.DecodeEdgePointsMsg(m) },
				"DecodeUpNodePointsMsg": func() { _, _, _, _ = client.DecodeUpNodePointsMsg(m) },
				"DecodeUpEdgePointsMsg": func() { _, _, _, _, _ = client.DecodeUpEdgePointsMsg(m) },
			} {
				if pan := mc.Safely(f); pan != "" {
					p.Violation("decoder-panic/"+name, fmt.Sprintf("%s panicked on subject %q: %s", name, s, pan), c12Bytes{Decoder: name, Hex: hex.EncodeToString(pl), Subject: s})
				}
			}
		}
	})
	p.Done()
	r.Assume("strings are valid UTF-8 (proto3 string fields); nil and empty Data are identified")
}

func init() {
	register("C12", "exploration", checkC12)
	rpBytes := func(v *mc.Violation) string {
		c := reinput[c12Bytes](v)
		b, _ := hex.DecodeString(c.Hex)
		if c.Subject != "" || strings.HasPrefix(c.Decoder, "Decode") && strings.HasSuffix(c.Decoder, "Msg") && v.Part == "subject-parsers" {
			m := &nats.Msg{Subject: c.Subject, Data: b}
			if pan := mc.Safely(func() {
				_, _, _ = client.DecodeNodePointsMsg(m)
				_, _, _, _ = client.DecodeEdgePointsMsg(m)
				_, _, _, _ = client.DecodeUpNodePointsMsg(m)
				_, _, _, _, _ = client.DecodeUpEdgePointsMsg(m)
			}); pan != "" {
				return "subject parser panicked: " + pan
			}
			return ""
		}
		for _, d := range c12Decoders() {
			if d.name == c.Decoder {
				if pan := mc.Safely(func() { d.f(b) }); pan != "" {
					return d.name + " panicked: " + pan
				}
			}
		}
		return ""
	}
	for _, p := range []string{"decoders-all-short", "decoders-wire-alphabet", "decoders-mutated-valid", "serial-valid-crc", "subject-parsers"} {
		replayers["C12/"+p] = rpBytes
	}
	replayers["C12/point-roundtrip"] = func(v *mc.Violation) string {
		cs := reinput[[]c12Pt](v)
		var pts data.Points
		for _, c := range cs {
			d, _ := hex.DecodeString(c.DataHex)
			if c.DataNil {
				d = nil
			}
			tm, err := time.Parse(time.RFC3339Nano, c.TimeStr)
			if err != nil {
				tm = time.Unix(0, c.TimeNs)
			}
			pts = append(pts, data.Point{Time: tm, Type: c.Type, Key: c.Key, Value: math.Float64frombits(c.ValueBits), Text: c.Text, Data: d, Tombstone: c.Tombstone, Origin: c.Origin})
		}
		return c12RoundPoints(pts)
	}
	replayers["C12/node-roundtrip"] = replayers["C12/point-roundtrip"]
}
