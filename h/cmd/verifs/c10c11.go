package main

import (
	"fmt"
	"math"

	"github.com/simpleiot/simpleiot/data"
	"verif/h/mc"
)

// ---------------------------------------------------------------------------
// C11: decoding arbitrary points never crashes; undeclared types change nothing

type c11Case struct {
	Kind      string       `json:"kind"`
	API       int          `json:"api"`
	Populated bool         `json:"populated"`
	Points    []c11Pt      `json:"points"`
	pts       []data.Point `json:"-"`
}

type c11Pt struct {
	Type      string `json:"type"`
	Key       string `json:"key"`
	ValueBits uint64 `json:"value_bits"`
	Value     string `json:"value"`
	Text      string `json:"text"`
	Tombstone int    `json:"tombstone"`
}

var apiNames = []string{"Decode(points)", "Decode(edgePoints)", "MergePoints", "MergeEdgePoints"}

func c11Pts(pts []data.Point) []c11Pt {
	var out []c11Pt
	for _, p := range pts {
		out = append(out, c11Pt{p.Type, p.Key, math.Float64bits(p.Value), fmt.Sprint(p.Value), p.Text, p.Tombstone})
	}
	return out
}

func declType(api int) string {
	if api == 1 || api == 3 {
		return "e"
	}
	return "v"
}

// c11Eval evaluates the oracle on one case.
func c11Eval(k kind, api int, pop bool, pts []data.Point) (key, msg string) {
	cp := append([]data.Point{}, pts...)
	pan, err, res, unchanged := k.decode(cp, api, pop)
	if pan != "" {
		return "panic/" + k.name, fmt.Sprintf("%s into %s (populated=%v) panicked: %s; points=%+v", apiNames[api], k.name, pop, pan, c11Pts(pts))
	}
	decl := declType(api)
	var declared []data.Point
	for _, p := range pts {
		if p.Type == decl {
			declared = append(declared, p)
		}
	}
	if len(declared) == 0 {
		if !unchanged {
			return "undeclared-changed/" + k.name, fmt.Sprintf("%s with only undeclared point types changed the %s target: %s; points=%+v", apiNames[api], k.name, res, c11Pts(pts))
		}
		return "", ""
	}
	if len(declared) < len(pts) {
		// differential: undeclared points are ignored
		_, err2, res2, _ := k.decode(declared, api, pop)
		if res2 != res || (err == nil) != (err2 == nil) {
			return "undeclared-not-ignored/" + k.name, fmt.Sprintf("%s into %s: result with undeclared points %s (err=%v) differs from result without them %s (err=%v); points=%+v", apiNames[api], k.name, res, err, res2, err2, c11Pts(pts))
		}
	}
	return "", ""
}

func checkC11(r *mc.Report, thorough bool) {
	kinds := allKinds()
	// (incl. the integer boundaries: index arithmetic on a parsed key must not overflow)
	keysFull := []string{"", "0", "1", "2", "5", "-1", "01", " 1", "1.5", "x", "a", "1000", "1001", "99999999999999999999",
		"2147483647", "2147483648", "4294967295", "9223372036854775806", "9223372036854775807", "9223372036854775808", "-9223372036854775808", "+1", "1e3", "0x1",
		// forms that parse differently under another base or syntax (octal-looking, prefixed, digit separators)
		"010", "0010", "017", "0o10", "0b10", "1_0", "0x10"}
	valsFull := []float64{0, 1, -1, 0.5, 255, 256, 9.223372036854775807e18, 1.8446744073709552e19, 1e300, -1e300, math.Inf(1), math.Inf(-1), math.NaN()}
	tombsFull := []int{0, 1, 2, 3, -1, -2}
	texts := []string{"", "t"}

	// ---- single points: full cross product
	p := r.Part("single-point", fmt.Sprintf("every field kind (%d) x api (4) x prior {zero, populated} x one point over type{declared,undeclared} x %d keys x %d values x %d tombstones x %d texts", len(kinds), len(keysFull), len(valsFull), len(tombsFull), len(texts)))
	mc.ParallelFor(len(kinds), func(ki int) {
		k := kinds[ki]
		for api := 0; api < 4; api++ {
			for _, pop := range []bool{false, true} {
				for _, typ := range []string{declType(api), "zz"} {
					for _, key := range keysFull {
						for _, val := range valsFull {
							for _, tomb := range tombsFull {
								for _, text := range texts {
									pts := []data.Point{{Type: typ, Key: key, Value: val, Tombstone: tomb, Text: text}}
									p.Case(true)
									p.Step(1)
									if vk, msg := c11Eval(k, api, pop, pts); vk != "" {
										p.Violation(vk, msg, c11Case{Kind: k.name, API: api, Populated: pop, Points: c11Pts(pts)})
									}
								}
							}
						}
					}
				}
			}
		}
	})
	p.Done()
	r.AddSample(map[string]any{"part": "single-point", "kind": "[]int", "api": "MergePoints", "populated": true, "point": c11Pt{"v", "1001", 0, "NaN", "", -1}})

	// ---- pairs
	keys2 := []string{"", "0", "2", "-1", "x", "a", "1000", "1001"}
	tombs2 := []int{0, 1, 2, -1}
	vals2 := []float64{1, 9.223372036854775807e18}
	apis2 := []int{0, 2}
	if thorough {
		keys2 = keysFull
		tombs2 = tombsFull
		vals2 = []float64{1, 9.223372036854775807e18, math.NaN()}
		apis2 = []int{0, 1, 2, 3}
	}
	var alpha2 []data.Point
	for _, typ := range []string{"D", "zz"} {
		for _, key := range keys2 {
			for _, tomb := range tombs2 {
				for _, val := range vals2 {
					alpha2 = append(alpha2, data.Point{Type: typ, Key: key, Tombstone: tomb, Value: val, Text: "t"})
				}
			}
		}
	}
	p = r.Part("point-pairs", fmt.Sprintf("every field kind x %d apis x prior {zero, populated} x all ordered pairs over a %d-point alphabet (type{declared,undeclared} x %d keys x %d tombstones x %d values): mixes of live and tombstoned points of one type", len(apis2), len(alpha2), len(keys2), len(tombs2), len(vals2)))
	type job struct {
		k   kind
		api int
		pop bool
	}
	var jobs []job
	for _, k := range kinds {
		for _, api := range apis2 {
			for _, pop := range []bool{false, true} {
				jobs = append(jobs, job{k, api, pop})
			}
		}
	}
	setT := func(p data.Point, api int) data.Point {
		if p.Type == "D" {
			p.Type = declType(api)
		}
		return p
	}
	mc.ParallelFor(len(jobs), func(ji int) {
		j := jobs[ji]
		for _, a := range alpha2 {
			for _, b := range alpha2 {
				pts := []data.Point{setT(a, j.api), setT(b, j.api)}
				p.Case(true)
				p.Step(1)
				if vk, msg := c11Eval(j.k, j.api, j.pop, pts); vk != "" {
					p.Violation(vk, msg, c11Case{Kind: j.k.name, API: j.api, Populated: j.pop, Points: c11Pts(pts)})
				}
			}
		}
	})
	p.Done()

	// ---- triples (small alphabet)
	keys3 := []string{"", "0", "2", "-1", "x", "1001"}
	tombs3 := []int{0, 1, -1}
	if !thorough {
		keys3 = []string{"", "1", "2", "x"}
	}
	var alpha3 []data.Point
	for _, key := range keys3 {
		for _, tomb := range tombs3 {
			alpha3 = append(alpha3, data.Point{Type: "D", Key: key, Tombstone: tomb, Value: 1, Text: "t"})
		}
	}
	alpha3 = append(alpha3, data.Point{Type: "zz", Key: "1", Value: 2})
	p = r.Part("point-triples", fmt.Sprintf("every field kind x Decode/MergePoints x prior {zero, populated} x all ordered triples over a %d-point alphabet", len(alpha3)))
	mc.ParallelFor(len(kinds)*4, func(ji int) {
		k := kinds[ji/4]
		api := []int{0, 2}[ji%2]
		pop := (ji/2)%2 == 1
		for _, a := range alpha3 {
			for _, b := range alpha3 {
				for _, c := range alpha3 {
					pts := []data.Point{setT(a, api), setT(b, api), setT(c, api)}
					p.Case(true)
					p.Step(1)
					if vk, msg := c11Eval(k, api, pop, pts); vk != "" {
						p.Violation(vk, msg, c11Case{Kind: k.name, API: api, Populated: pop, Points: c11Pts(pts)})
					}
				}
			}
		}
	})
	p.Done()
	checkC11U(r)
	r.Assume("field kinds: the supported kinds listed in data/encode.go (scalars, pointers to scalars and flat structs, slices, arrays, string-keyed maps, flat structs)")
}

func init() {
	register("C11", "exploration", checkC11)
	rp := func(v *mc.Violation) string {
		c := reinput[c11Case](v)
		var pts []data.Point
		for _, p := range c.Points {
			pts = append(pts, data.Point{Type: p.Type, Key: p.Key, Value: math.Float64frombits(p.ValueBits), Text: p.Text, Tombstone: p.Tombstone})
		}
		for _, k := range allKinds() {
			if k.name == c.Kind {
				_, msg := c11Eval(k, c.API, c.Populated, pts)
				return msg
			}
		}
		return "HARNESS-ERROR: unknown kind " + c.Kind
	}
	for _, p := range []string{"single-point", "point-pairs", "point-triples"} {
		replayers["C11/"+p] = rp
	}
}

// ---------------------------------------------------------------------------
// C10: Encode/Decode and Diff/Merge round trip

type c10Case struct {
	Kind      string `json:"kind"`
	I         int    `json:"i"`
	J         int    `json:"j"`
	Normalise bool   `json:"normalise"`
	Op        string `json:"op"`
	A         string `json:"a"`
	B         string `json:"b,omitempty"`
}

type c10Child struct {
	ID          string `node:"id"`
	Parent      string `node:"parent"`
	Description string `point:"description"`
	Count       int    `point:"count"`
	Role        string `edgepoint:"role"`
}

type c10Parent struct {
	ID       string     `node:"id"`
	Parent   string     `node:"parent"`
	Name     string     `point:"name"`
	Kids     []c10Child `child:"c10Child"`
	Others   []c10Child `child:"other"`
	Untagged int
}

func checkC10(r *mc.Report, thorough bool) {
	kinds := allKindsT(thorough)
	p := r.Part("encode-decode", "every value of every field kind's boundary alphabet, as point field and as edgepoint field, raw keys and store-normalised keys (\"\"->\"0\")")
	for _, k := range kinds {
		for i := 0; i < k.nvals; i++ {
			for _, norm := range []bool{false, true} {
				p.Case(true)
				p.Step(1)
				if msg := k.roundtrip(i, norm); msg != "" {
					p.Violation("roundtrip/"+k.name, msg, c10Case{Kind: k.name, I: i, Normalise: norm, Op: "roundtrip", A: k.desc(i)})
				}
			}
		}
	}
	p.Done()

	p = r.Part("diff-merge", "all ordered pairs (a,b) of every field kind's alphabet: Merge(Decode(Encode(a)), Diff(a,b)) == b; raw and normalised keys")
	mc.ParallelFor(len(kinds), func(ki int) {
		k := kinds[ki]
		for i := 0; i < k.nvals; i++ {
			for j := 0; j < k.nvals; j++ {
				for _, norm := range []bool{false, true} {
					p.Case(i != j)
					p.Step(1)
					if msg := k.diffmerge(i, j, norm); msg != "" {
						p.Violation("diffmerge/"+k.name, msg, c10Case{Kind: k.name, I: i, J: j, Normalise: norm, Op: "diffmerge", A: k.desc(i), B: k.desc(j)})
					}
				}
			}
		}
		if ki == 18 {
			r.AddSample(map[string]any{"part": "diff-merge", "kind": k.name, "a": k.desc(7), "b": k.desc(3)})
		}
	})
	p.Done()

	// fields do not interfere: a struct with three fields of different kinds, full product of small alphabets
	type Three struct {
		ID string         `node:"id"`
		S  []int          `point:"s"`
		M  map[string]int `point:"m"`
		P  *string        `point:"p"`
		N  int            `point:"n"`
	}
	sv := slicesOf(nil, []int{1}, []int{1, 2}, []int{0, 0, 3})
	mv := mapsOf(nil, map[string]int{"a": 1}, map[string]int{"a": 2, "0": 3})
	pv := ptrs("", "x")
	nv := []int{0, 5}
	var all []func() Three
	for _, s := range sv {
		for _, m := range mv {
			for _, pp := range pv {
				for _, n := range nv {
					s, m, pp, n := s, m, pp, n
					all = append(all, func() Three { return Three{ID: "n", S: s(), M: m(), P: pp(), N: n} })
				}
			}
		}
	}
	p = r.Part("three-fields", fmt.Sprintf("struct with slice+map+pointer+int fields: all %d values, all ordered pairs for diff/merge", len(all)))
	mc.ParallelFor(len(all), func(i int) {
		for j := range all {
			a, b := all[i](), all[j]()
			p.Case(i != j)
			p.Step(1)
			var msg string
			if pan := mc.Safely(func() {
				ne, err := data.Encode(a)
				if err != nil {
					msg = "Encode error: " + err.Error()
					return
				}
				var cur Three
				if err := data.Decode(data.NodeEdgeChildren{NodeEdge: ne}, &cur); err != nil {
					msg = "Decode error: " + err.Error()
					return
				}
				if render(cur) != render(a) && !(eqvAny(cur, a)) {
					msg = fmt.Sprintf("Decode(Encode(a)) != a: a=%s got %s", render(a), render(cur))
					return
				}
				d, err := data.DiffPoints(a, b)
				if err != nil {
					msg = "DiffPoints error: " + err.Error()
					return
				}
				if err := data.MergePoints("n", d, &cur); err != nil {
					msg = "MergePoints error: " + err.Error()
					return
				}
				if !eqvAny(cur, b) {
					msg = fmt.Sprintf("Merge(.., Diff(a,b)) != b: a=%s b=%s got %s diff=%v", render(a), render(b), render(cur), d)
				}
			}); pan != "" {
				msg = "panic: " + pan
			}
			if msg != "" {
				p.Violation("three-fields", msg, c10Case{Kind: "three", I: i, J: j, Op: "three", A: render(a), B: render(b)})
			}
		}
	})
	p.Done()

	// child lists on decode
	p = r.Part("child-lists", "Decode of a node with 0..3 children of the declared type mixed with children of another type, in every order: the child slice holds exactly the declared-type children, in input order, each decoded from its own points")
	mkChild := func(i int, typ string) data.NodeEdgeChildren {
		return data.NodeEdgeChildren{NodeEdge: data.NodeEdge{ID: fmt.Sprintf("c%d", i), Parent: "n", Type: typ,
			Points:     data.Points{{Type: "description", Text: fmt.Sprintf("d%d", i)}, {Type: "count", Value: float64(i)}},
			EdgePoints: data.Points{{Type: "role", Text: fmt.Sprintf("r%d", i)}}}}
	}
	types := []string{"c10Child", "other", "unknown"}
	for n := 0; n <= 3; n++ {
		total := 1
		for i := 0; i < n; i++ {
			total *= len(types)
		}
		for code := 0; code < total; code++ {
			in := data.NodeEdgeChildren{NodeEdge: data.NodeEdge{ID: "n", Parent: "root", Points: data.Points{{Type: "name", Text: "N"}}}}
			c := code
			var wantKids, wantOthers []c10Child
			for i := 0; i < n; i++ {
				t := types[c%len(types)]
				c /= len(types)
				in.Children = append(in.Children, mkChild(i, t))
				ch := c10Child{ID: fmt.Sprintf("c%d", i), Parent: "n", Description: fmt.Sprintf("d%d", i), Count: i, Role: fmt.Sprintf("r%d", i)}
				if t == "c10Child" {
					wantKids = append(wantKids, ch)
				} else if t == "other" {
					wantOthers = append(wantOthers, ch)
				}
			}
			var out c10Parent
			p.Case(n > 0)
			p.Step(1)
			var msg string
			if pan := mc.Safely(func() {
				if err := data.Decode(in, &out); err != nil {
					msg = "Decode error: " + err.Error()
				}
			}); pan != "" {
				msg = "panic: " + pan
			}
			want := c10Parent{ID: "n", Parent: "root", Name: "N", Kids: wantKids, Others: wantOthers}
			if msg == "" && !eqvAny(out, want) {
				msg = fmt.Sprintf("child decode: want %s got %s", render(want), render(out))
			}
			if msg != "" {
				p.Violation("child-lists", msg, c10Case{Kind: "children", I: n, J: code, Op: "children"})
			}
		}
	}
	p.Done()
	r.Assume("equality identifies nil and empty slices/maps (the point encoding cannot distinguish them); NaN excluded (C05 refuses it)")
	r.Assume("values restricted to per-kind boundary alphabets within the documented limits (<=1000 elements, |int| <= 2^53-1)")
}

func eqvAny(a, b any) bool { return render(a) == render(b) }

func init() {
	register("C10", "exploration", checkC10)
	rp := func(v *mc.Violation) string {
		c := reinput[c10Case](v)
		for _, k := range allKindsT(true) {
			if k.name == c.Kind {
				if c.Op == "roundtrip" {
					return k.roundtrip(c.I, c.Normalise)
				}
				return k.diffmerge(c.I, c.J, c.Normalise)
			}
		}
		return "HARNESS-ERROR: replay of this part is only available by re-running the check"
	}
	for _, p := range []string{"encode-decode", "diff-merge", "three-fields", "child-lists"} {
		replayers["C10/"+p] = rp
	}
}
