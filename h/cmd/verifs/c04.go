package main

import (
	"bytes"
	"fmt"
	"net/http/httptest"
	"os"
	"os/exec"
	"path/filepath"
	"regexp"
	"sort"
	"strconv"
	"strings"
	"sync"
	"time"

	"github.com/golang-jwt/jwt/v4"
	"github.com/simpleiot/simpleiot/client"
	"verif/h/c04"
	"verif/h/mc"
	"verif/h/sh"
)

// C04: a crash at any instant loses no acknowledged write and corrupts nothing.
//
// Fault model: process death (SIGKILL). The files can only differ between two
// state-changing system calls on the store's files, so the crash points of a
// history are enumerable: the writer process is started under strace with
// `inject=<write-class calls on the store files>:signal=KILL:when=N` for every
// N = 1 .. (number of such calls), which delivers a real SIGKILL at the N-th
// call; the real recovery path (store.NewStore) then runs on what is left.

const c04Set = "write,pwrite64,writev,pwritev,ftruncate,unlink,unlinkat,rename,renameat,fallocate"

func c04Strace(dir string, hist int, rootArg, mode string, n int, traceOut string) (stdout string, err error) {
	db := filepath.Join(dir, "db")
	args := []string{"-qq"} // no -f: only the main thread is traced (strace counts `when=` per thread)
	for _, suf := range []string{"", "-wal", "-journal", "-shm"} {
		args = append(args, "-P", db+suf)
	}
	args = append(args, "-e", "trace="+c04Set)
	if n > 0 {
		args = append(args, "-e", fmt.Sprintf("inject=%s:signal=KILL:when=%d", c04Set, n))
	}
	if traceOut == "" {
		traceOut = "/dev/null"
	}
	args = append(args, "-o", traceOut, filepath.Join(root(), "bin", "c04writer"), db, strconv.Itoa(hist), rootArg, mode)
	cmd := exec.Command("strace", args...)
	var out bytes.Buffer
	cmd.Stdout = &out
	cmd.Env = append(os.Environ(), "GOMAXPROCS=2")
	err = cmd.Run()
	return out.String(), err
}

// c04Content: what the statement talks about, restricted to what the history wrote
// (the instance root's own edge and the default admin user are created by
// initialisation with fresh ids/times and are compared separately).
func c04Content(inst *sh.Inst, hist ...int) (string, sh.Snapshot, error) {
	if len(hist) > 0 && hist[0] == c04.RootSwitch {
		return c04ContentRootSwitch(inst)
	}
	snap, err := inst.Snap(append([]string{inst.RootID}, c04.Universe...))
	if err != nil {
		return "", snap, err
	}
	var lines []string
	uni := map[string]bool{}
	for _, u := range c04.Universe {
		uni[u] = true
	}
	for _, e := range snap.Edges {
		if uni[e.Down] {
			up := e.Up
			if up == inst.RootID {
				up = "ROOT"
			}
			lines = append(lines, fmt.Sprintf("%s>%s[%s]{%s}{%s}\n", up, e.Down, e.Type, sh.CanonPoints(e.Points), sh.CanonPoints(e.EdgePoints)))
		}
		if e.Down == inst.RootID {
			lines = append(lines, fmt.Sprintf("ROOTPOINTS{%s}\n", sh.CanonPoints(e.Points)))
		}
	}
	// rows of the universe nodes as they are in the file: a node that has points but no edge yet is invisible to the
	// API, its acknowledged points must survive all the same
	if rowsOf, err := sh.ReadNodePointRows(inst.File, c04.Universe); err == nil {
		for _, u := range c04.Universe {
			lines = append(lines, fmt.Sprintf("ROWS %s{%s}\n", u, rowsOf[u]))
		}
	} else {
		return "", snap, err
	}
	sort.Strings(lines)
	return strings.Join(lines, ""), snap, nil
}

// c04ContentRootSwitch: the root-switch history is written against the configured id "root0"; ids are literal
// (which of the two is the instance root is compared separately). The first root's own edge points carry the
// time of its creation and are left out.
func c04ContentRootSwitch(inst *sh.Inst) (string, sh.Snapshot, error) {
	ids := []string{"root0", c04.NewRoot, "A"}
	snap, err := inst.Snap(ids)
	if err != nil {
		return "", snap, err
	}
	var lines []string
	for _, e := range snap.Edges {
		switch e.Down {
		case "root0":
			lines = append(lines, fmt.Sprintf("%s>%s[%s]{%s}\n", e.Up, e.Down, e.Type, sh.CanonPoints(e.Points)))
		case c04.NewRoot, "A":
			lines = append(lines, fmt.Sprintf("%s>%s[%s]{%s}{%s}\n", e.Up, e.Down, e.Type, sh.CanonPoints(e.Points), sh.CanonPoints(e.EdgePoints)))
		}
	}
	sort.Strings(lines)
	return strings.Join(lines, ""), snap, nil
}

var c04OpenedRe = regexp.MustCompile(`OPENED root=(\S+) token=(\S+)`)

type c04Case struct {
	History int    `json:"history"`
	Root    string `json:"root_arg"`
	Mode    string `json:"writer_mode"`
	KillAt  int    `json:"kill_at_syscall"`
	Stdout  string `json:"writer_stdout"`
}

func checkC04(r *mc.Report, thorough bool) {
	if _, err := exec.LookPath("strace"); err != nil {
		fmt.Fprintln(os.Stderr, "HARNESS-ERROR: strace not found")
		os.Exit(3)
	}
	type variant struct {
		hist int
		root string
		mode string
	}
	variants := []variant{{0, "root0", "A"}, {0, "root0", "B"}, {1, "-", "A"}, {3, "root0", "A"}, {4, "root0", "A"}, {c04.RootSwitch, "root0", "A"}}
	if thorough {
		variants = nil
		for h := 0; h < c04.NumHistories; h++ {
			variants = append(variants, variant{h, "root0", "A"}, variant{h, "root0", "B"})
		}
		variants = append(variants, variant{0, "-", "A"}, variant{1, "-", "A"}, variant{1, "-", "B"})
	}
	only := -1
	if o := os.Getenv("VERIF_C04_ONLY"); o != "" { // replay of one kill point: "hist,root,mode,n"
		f := strings.Split(o, ",")
		h, _ := strconv.Atoi(f[0])
		only, _ = strconv.Atoi(f[3])
		variants = []variant{{h, f[1], f[2]}}
	}
	base, err := os.MkdirTemp(mc.ScratchDir(), "verif-c04-")
	if err != nil {
		fmt.Fprintln(os.Stderr, "HARNESS-ERROR:", err)
		os.Exit(3)
	}
	defer os.RemoveAll(base)
	totalDied := 0
	for _, v := range variants {
		name := fmt.Sprintf("kill-points/history%d/root=%s/%s", v.hist, v.root, map[string]string{"A": "open+writes", "B": "open+shutdown"}[v.mode])
		p := r.Part(name, "real SIGKILL (strace inject) at EVERY state-changing system call (write, ftruncate, unlink, ...) on the store's files (db, -wal, -shm, -journal) during first-time initialisation, the write history and shutdown; the real recovery path then runs on the surviving files")
		// reference states S_0..S_n on an uncrashed instance
		refDir := filepath.Join(base, fmt.Sprintf("ref-%d-%s-%s", v.hist, v.root, v.mode))
		os.MkdirAll(refDir, 0o755)
		ref, err := sh.New(sh.Opts{File: filepath.Join(refDir, "db"), NoTemplate: true, RootID: "root0"})
		if err != nil {
			r.AddViolation(name, "harness", "HARNESS: reference instance: "+err.Error(), nil)
			continue
		}
		reqs := c04.History(v.hist, ref.RootID)
		var S []string
		c0, _, _ := c04Content(ref, v.hist)
		S = append(S, c0)
		for _, q := range reqs {
			if err := c04.Send(ref.Nc, q); err != nil {
				r.AddViolation(name, "harness", fmt.Sprintf("HARNESS: reference run refused %s: %v", q.What, err), nil)
			}
			c, _, _ := c04Content(ref, v.hist)
			S = append(S, c)
		}
		ref.Stop()

		// count the state-changing calls of an uncrashed run
		cntDir := filepath.Join(base, fmt.Sprintf("cnt-%d-%s-%s", v.hist, v.root, v.mode))
		os.MkdirAll(cntDir, 0o755)
		trace := filepath.Join(cntDir, "trace.txt")
		out, err := c04Strace(cntDir, v.hist, v.root, v.mode, 0, trace)
		if err != nil || !strings.Contains(out, "DONE") {
			fmt.Fprintf(os.Stderr, "HARNESS-ERROR: uncrashed writer run failed: %v\n%s\n", err, out)
			os.Exit(3)
		}
		tb, _ := os.ReadFile(trace)
		ncalls := 0
		for _, l := range strings.Split(string(tb), "\n") {
			if strings.Contains(l, "(") && !strings.Contains(l, "--- SIG") && !strings.Contains(l, "+++") {
				ncalls++
			}
		}
		if ncalls < 20 {
			fmt.Fprintf(os.Stderr, "HARNESS-ERROR: only %d traced calls; strace path filter not working?\n", ncalls)
			os.Exit(3)
		}
		r.Extra(fmt.Sprintf("syscalls_history%d_root%s_%s", v.hist, v.root, v.mode), ncalls)
		var mu sync.Mutex
		died, survived := 0, 0
		survivedAt := map[int]bool{}
		mc.ParallelFor(ncalls+3, func(i int) {
			n := i + 1
			if only >= 0 && n != only {
				mu.Lock()
				survivedAt[n] = true
				mu.Unlock()
				return
			}
			dir := filepath.Join(base, fmt.Sprintf("k-%d-%s-%s-%d", v.hist, v.root, v.mode, n))
			os.MkdirAll(dir, 0o755)
			defer os.RemoveAll(dir)
			out, _ := c04Strace(dir, v.hist, v.root, v.mode, n, "")
			p.Case(true)
			p.Step(1)
			cs := c04Case{v.hist, v.root, v.mode, n, out}
			if strings.Contains(out, "DONE") {
				mu.Lock()
				survived++
				survivedAt[n] = true
				mu.Unlock()
			} else {
				mu.Lock()
				died++
				mu.Unlock()
			}
			if strings.Contains(out, "OPENFAIL") || strings.Contains(out, "REFUSED") {
				p.Violation("writer-failed", fmt.Sprintf("history %d kill@%d: writer reported: %s", v.hist, n, out), cs)
				return
			}
			acks := strings.Count(out, "ACK ")
			opened := c04OpenedRe.FindStringSubmatch(out)
			phase := "init"
			if opened != nil {
				phase = "history"
			}
			if acks == len(reqs) {
				phase = "shutdown"
			}
			fail := func(class, msg string) {
				p.Violation(class+"/"+phase, fmt.Sprintf("history %d (root arg %q), SIGKILL at state-changing syscall #%d (%d requests acknowledged, phase %s): %s", v.hist, v.root, n, acks, phase, msg), cs)
			}
			rootArg := v.root
			if rootArg == "-" {
				rootArg = ""
			}
			rec, err := sh.New(sh.Opts{File: filepath.Join(dir, "db"), NoTemplate: true, RootID: rootArg, RawRootID: true})
			if err != nil {
				fail("does-not-open", "store does not open again: "+err.Error())
				return
			}
			stopped := false
			defer func() {
				if !stopped {
					rec.Stop()
				}
			}()
			// the instance root after recovery: the one announced at start, or — in the root-switch history, once the
			// request that places a second node below the root sentinel is acknowledged (or in flight) — that node
			okRoots := map[string]bool{}
			if opened != nil {
				okRoots[opened[1]] = true
				if v.hist == c04.RootSwitch {
					if acks >= c04.RootSwitchAt {
						okRoots[c04.NewRoot] = true
					}
					if acks > c04.RootSwitchAt {
						delete(okRoots, opened[1])
					}
				}
			}
			if opened != nil {
				if !okRoots[rec.RootID] {
					fail("root-changed", fmt.Sprintf("instance root was %s (%d requests acknowledged), after recovery %s", opened[1], acks, rec.RootID))
				}
				req := httptest.NewRequest("GET", "http://x/", nil)
				req.Header.Set("Authorization", "Bearer "+opened[2])
				if ok, _ := rec.Store.GetAuthorizer().Valid(req); !ok {
					fail("signing-key-changed", "a token issued before the crash no longer validates")
				}
			}
			content, snap, err := c04Content(rec, v.hist)
			if err != nil {
				fail("unreadable", "recovered store cannot be read: "+err.Error())
				return
			}
			if opened != nil {
				k := acks
				if content != S[k] && (k+1 >= len(S) || content != S[k+1]) {
					what := "next request: none"
					if k < len(reqs) {
						what = "next request: " + reqs[k].What
					}
					fail("acknowledged-write-lost-or-batch-torn", fmt.Sprintf("recovered content is neither the state after %d acknowledged requests nor after %d (%s)\nrecovered:\n%swant:\n%s", k, k+1, what, content, S[k]))
				}
			} else if content != S[0] {
				// crash during first-time initialisation: nothing of the history can be there
				fail("content-before-open", "content present although the store never finished opening:\n"+content)
			}
			if d := snap.CheckHashes(); d != "" {
				fail("hash-inconsistent", d)
			}
			// exactly one instance root: the node recorded in meta is the only one placed under "root"
			if roots, metaRoot, err := sh.ReadRootEdges(filepath.Join(dir, "db")); err != nil {
				fail("unreadable", "root edges cannot be read: "+err.Error())
			} else if v.hist == c04.RootSwitch && opened != nil {
				// here a second node below the root sentinel is the history's doing: meta must name the instance root and it must be one of them
				found := false
				for _, x := range roots {
					found = found || x == metaRoot
				}
				if !found || metaRoot != rec.RootID || len(roots) > 2 {
					fail("second-root", fmt.Sprintf("after recovery the file holds root edges %v, meta root %q, instance root %q", roots, metaRoot, rec.RootID))
				}
			} else if len(roots) != 1 || roots[0] != metaRoot || metaRoot != rec.RootID {
				fail("second-root", fmt.Sprintf("after recovery the file holds root edges %v, meta root %q, instance root %q: a crashed initialisation left an orphaned root behind", roots, metaRoot, rec.RootID))
			}
			// the recovered instance keeps working and its identity is stable over another restart
			if err := client.SendNodePoints(rec.Nc, rec.RootID, c04.History(0, rec.RootID)[10].Points, true); err != nil {
				fail("write-after-recovery", "write refused after recovery: "+err.Error())
			}
			// the recovered instance signs with a real key: a token anybody can make with the empty key is not valid
			{
				forged, _ := jwt.NewWithClaims(jwt.SigningMethodHS256, jwt.StandardClaims{ExpiresAt: time.Now().Add(time.Hour).Unix(), Issuer: "simpleiot", Id: "intruder"}).SignedString([]byte{})
				req := httptest.NewRequest("GET", "http://x/", nil)
				req.Header.Set("Authorization", "Bearer "+forged)
				if ok, _ := rec.Store.GetAuthorizer().Valid(req); ok {
					fail("signing-key-missing", "after recovery the instance accepts a token signed with the EMPTY key: it runs without a token-signing key")
				}
			}
			tok, _ := rec.Store.GetAuthorizer().NewToken("u")
			rid := rec.RootID
			rec.Stop()
			stopped = true
			rec2, err := sh.New(sh.Opts{File: filepath.Join(dir, "db"), NoTemplate: true, RootID: rootArg, RawRootID: true})
			if err != nil {
				fail("does-not-open", "second reopen failed: "+err.Error())
				return
			}
			defer rec2.Stop()
			if rec2.RootID != rid {
				fail("root-changed", fmt.Sprintf("root %s became %s on the next restart", rid, rec2.RootID))
			}
			req := httptest.NewRequest("GET", "http://x/", nil)
			req.Header.Set("Authorization", "Bearer "+tok)
			if ok, _ := rec2.Store.GetAuthorizer().Valid(req); !ok {
				fail("signing-key-changed", "signing key changed between two restarts after the crash")
			}
		})
		p.Done()
		totalDied += died
		r.Notef("%s: %d state-changing syscalls; %d kill points where the writer died, %d runs survived (N beyond the last call)", name, ncalls, died, survived)
		// complete iff the surviving runs are exactly the N beyond the writer's last call: a suffix
		first := ncalls + 4
		for n := range survivedAt {
			if n < first {
				first = n
			}
		}
		complete := len(survivedAt) > 0
		for n := first; n <= ncalls+3; n++ {
			if !survivedAt[n] {
				complete = false
			}
		}
		if !complete {
			r.Inconclusive(fmt.Sprintf("%s: the writer survived some N below its last call (%d died, %d survived): kill points not contiguous", name, died, survived))
		}
		r.AddSample(map[string]any{"part": name, "requests": func() []string {
			var s []string
			for _, q := range reqs {
				s = append(s, q.What)
			}
			return s
		}(), "kill_points": ncalls})
	}
	r.Extra("kill_points_died", totalDied)
	r.Assume("fault model = process death: the persisted state after kill -9 is exactly the completed system calls (page cache survives the process); power loss with dropped unsynced blocks is outside the property")
	r.Assume("changes to the memory-mapped WAL index (-shm) between two system calls are not separate crash points")
}

func init() {
	register("C04", "fault_enumeration", checkC04)
}
