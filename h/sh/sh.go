// Package sh is the shared store harness: a real store.Store on a real SQLite
// file (in /dev/shm), served over the deterministic in-process bus.
package sh

import (
	"context"
	"database/sql"
	"encoding/binary"
	"fmt"
	"hash/crc32"
	"math"
	"os"
	"path/filepath"
	"sort"
	"strings"
	"sync"
	"sync/atomic"
	"time"

	"github.com/nats-io/nats.go"
	"github.com/simpleiot/simpleiot/client"
	"github.com/simpleiot/simpleiot/data"
	"github.com/simpleiot/simpleiot/store"
	_ "modernc.org/sqlite"
)

// Inst is one running instance.
type Inst struct {
	LeftSubscribed []string
	URL            string
	Bus            *nats.Bus
	Nc             *nats.Conn // driver connection
	StNc           *nats.Conn // store connection
	Store          *store.Store
	RootID         string
	Dir            string
	File           string
	done           chan error
}

var (
	seq atomic.Int64
	// RootID of template instances.
	TemplateRoot = "root0"
)

// ScratchBase is where database files live.
func ScratchBase() string {
	if d := os.Getenv("VERIF_SCRATCH"); d != "" {
		return d
	}
	if st, err := os.Stat("/dev/shm"); err == nil && st.IsDir() {
		return "/dev/shm"
	}
	return os.TempDir()
}

func newDir() string {
	d := filepath.Join(ScratchBase(), fmt.Sprintf("verif-%d-%d", os.Getpid(), seq.Add(1)))
	os.MkdirAll(d, 0o755)
	return d
}

// Opts for a new instance.
type Opts struct {
	Mode      nats.Mode
	AuthToken string
	RootID    string
	// File: open this existing database instead of a fresh one.
	File string
	// NoTemplate: run the real first-time initialisation instead of copying
	// the pre-initialised template file.
	NoTemplate bool
	URL        string
	// RawRootID: pass RootID to the store as given (also when empty: the store then generates one).
	RawRootID bool
}

var (
	tmplMu   sync.Mutex
	tmplDirs = map[string]string{}
)

// template builds one initialised database per root id that fresh instances
// copy (first-time initialisation costs ~7 ms, a copy ~30 us).
func template(root string) (string, error) {
	tmplMu.Lock()
	defer tmplMu.Unlock()
	if d, ok := tmplDirs[root]; ok {
		return filepath.Join(d, "db"), nil
	}
	dir := newDir()
	url := "nats://template-" + root
	i, err := start(Opts{NoTemplate: true, RootID: root, URL: url}, filepath.Join(dir, "db"))
	if err != nil {
		return "", err
	}
	i.Stop()
	tmplDirs[root] = dir
	return filepath.Join(dir, "db"), nil
}

// CleanupTemplate removes the template directories.
func CleanupTemplate() {
	tmplMu.Lock()
	defer tmplMu.Unlock()
	for k, d := range tmplDirs {
		os.RemoveAll(d)
		delete(tmplDirs, k)
	}
}

// New starts an instance on a fresh database.
func New(o Opts) (*Inst, error) {
	dir := newDir()
	file := filepath.Join(dir, "db")
	if o.File != "" {
		file = o.File
		os.RemoveAll(dir)
		dir = ""
	} else if !o.NoTemplate {
		r := o.RootID
		if r == "" {
			r = TemplateRoot
		}
		t, err := template(r)
		if err != nil {
			return nil, err
		}
		b, err := os.ReadFile(t)
		if err != nil {
			return nil, err
		}
		if err := os.WriteFile(file, b, 0o644); err != nil {
			return nil, err
		}
	}
	i, err := start(o, file)
	if err != nil {
		os.RemoveAll(dir)
		return nil, err
	}
	i.Dir = dir
	return i, nil
}

func start(o Opts, file string) (*Inst, error) {
	url := o.URL
	if url == "" {
		url = fmt.Sprintf("nats://i%d:4222", seq.Add(1))
	}
	bus := nats.GetBus(url)
	if bus == nil {
		bus = nats.NewBus(url, o.Mode)
	}
	bus.Token = o.AuthToken
	stNc := bus.Connect()
	root := o.RootID
	if root == "" && !o.RawRootID {
		root = TemplateRoot
	}
	st, err := store.NewStore(store.Params{File: file, AuthToken: o.AuthToken, Server: url, Nc: stNc, ID: root})
	if err != nil {
		nats.RemoveBus(url)
		return nil, err
	}
	i := &Inst{URL: url, Bus: bus, StNc: stNc, Store: st, File: file, done: make(chan error, 1)}
	go func() { i.done <- st.Run() }()
	ctx, cancel := context.WithTimeout(context.Background(), 30*time.Second)
	defer cancel()
	if err := st.WaitStart(ctx); err != nil {
		return nil, err
	}
	i.Nc = bus.Connect()
	rn, err := client.GetRootNode(i.Nc)
	if err != nil {
		return nil, fmt.Errorf("get root node: %w", err)
	}
	i.RootID = rn.ID
	return i, nil
}

// Stop stops the store (database closed, file kept).
func (i *Inst) Stop() {
	i.Store.Stop(nil)
	<-i.done
	i.Nc.Close()
	i.StNc.Close()
	nats.RemoveBus(i.URL)
}

// Close stops the store and removes its files.
func (i *Inst) Close() {
	i.Stop()
	if i.Dir != "" {
		os.RemoveAll(i.Dir)
	}
}

// ---------------------------------------------------------------------------
// observation

// Canon renders a point canonically (all fields).
func Canon(p data.Point) string {
	return fmt.Sprintf("%s|%s|%d|%016x|%q|%x|%d|%s", p.Type, p.Key, p.Time.UnixNano(), math.Float64bits(p.Value), p.Text, p.Data, p.Tombstone, p.Origin)
}

// CanonPoints renders a point list sorted by type/key.
func CanonPoints(ps data.Points) string {
	var s []string
	for _, p := range ps {
		s = append(s, Canon(p))
	}
	sort.Strings(s)
	return strings.Join(s, ";")
}

// Edge is one placement as reported by the store.
type Edge struct {
	Up, Down, Type string
	Hash           uint32
	Points         data.Points
	EdgePoints     data.Points
}

// Snapshot is everything observable through nodes.* for a universe of ids.
type Snapshot struct {
	Edges []Edge
}

// Snap reads every placement of every id in ids (deleted included) plus all
// children of those ids.
func (i *Inst) Snap(ids []string) (Snapshot, error) {
	seen := map[string]bool{}
	var s Snapshot
	add := func(ns []data.NodeEdge) {
		for _, n := range ns {
			k := n.Parent + ">" + n.ID
			if seen[k] {
				continue
			}
			seen[k] = true
			s.Edges = append(s.Edges, Edge{Up: n.Parent, Down: n.ID, Type: n.Type, Hash: n.Hash, Points: n.Points, EdgePoints: n.EdgePoints})
		}
	}
	for _, id := range ids {
		ns, err := client.GetNodes(i.Nc, "all", id, "", true)
		if err != nil {
			return s, fmt.Errorf("GetNodes(all,%s): %w", id, err)
		}
		add(ns)
		ns, err = client.GetNodes(i.Nc, id, "all", "", true)
		if err != nil {
			return s, fmt.Errorf("GetNodes(%s,all): %w", id, err)
		}
		add(ns)
	}
	sort.Slice(s.Edges, func(a, b int) bool {
		if s.Edges[a].Up != s.Edges[b].Up {
			return s.Edges[a].Up < s.Edges[b].Up
		}
		return s.Edges[a].Down < s.Edges[b].Down
	})
	return s, nil
}

// String renders the snapshot canonically (hashes included).
func (s Snapshot) String() string {
	var b strings.Builder
	for _, e := range s.Edges {
		fmt.Fprintf(&b, "%s>%s[%s]#%08x{%s}{%s}\n", e.Up, e.Down, e.Type, e.Hash, CanonPoints(e.Points), CanonPoints(e.EdgePoints))
	}
	return b.String()
}

// Content renders the snapshot without hashes.
func (s Snapshot) Content() string {
	var b strings.Builder
	for _, e := range s.Edges {
		fmt.Fprintf(&b, "%s>%s[%s]{%s}{%s}\n", e.Up, e.Down, e.Type, CanonPoints(e.Points), CanonPoints(e.EdgePoints))
	}
	return b.String()
}

// ---------------------------------------------------------------------------
// independent Merkle recomputation (from docs/ref/sync.md and the property
// statement; does not call NodeEdge.CalcHash or Point.CRC)

// PointSum is CRC-32/IEEE over time(LE ns) || type || key || text || value bits(LE).
func PointSum(p data.Point) uint32 {
	if p.Type == data.PointTypeNodeType {
		return 0
	}
	var buf []byte
	var t [8]byte
	binary.LittleEndian.PutUint64(t[:], uint64(p.Time.UnixNano()))
	buf = append(buf, t[:]...)
	buf = append(buf, p.Type...)
	buf = append(buf, p.Key...)
	buf = append(buf, p.Text...)
	binary.LittleEndian.PutUint64(t[:], math.Float64bits(p.Value))
	buf = append(buf, t[:]...)
	return crc32.ChecksumIEEE(buf)
}

// CheckHashes recomputes the hash of every edge in the snapshot bottom-up and
// returns a description of the first mismatch ("" = all consistent).
func (s Snapshot) CheckHashes() string {
	kids := map[string][]Edge{}
	for _, e := range s.Edges {
		kids[e.Up] = append(kids[e.Up], e)
	}
	memo := map[string]uint32{}
	var calc func(e Edge, depth int) uint32
	calc = func(e Edge, depth int) uint32 {
		k := e.Up + ">" + e.Down
		if v, ok := memo[k]; ok {
			return v
		}
		if depth > 64 {
			return 0
		}
		var h uint32
		for _, p := range e.Points {
			h ^= PointSum(p)
		}
		for _, p := range e.EdgePoints {
			h ^= PointSum(p)
		}
		for _, c := range kids[e.Down] {
			h ^= calc(c, depth+1)
		}
		memo[k] = h
		return h
	}
	for _, e := range s.Edges {
		if want := calc(e, 0); want != e.Hash {
			return fmt.Sprintf("edge %s>%s: stored hash %08x, Merkle hash of content %08x", e.Up, e.Down, e.Hash, want)
		}
	}
	return ""
}

// ReadJWTKey reads the token-signing key straight from a store file.
func ReadJWTKey(file string) ([]byte, error) {
	db, err := sql.Open("sqlite", file+"?_pragma=busy_timeout(8000)")
	if err != nil {
		return nil, err
	}
	defer db.Close()
	var k []byte
	err = db.QueryRow("SELECT jwt_key FROM meta").Scan(&k)
	return k, err
}

// ExecSQL runs statements straight on a store file (harness privilege: to put a file into a state an older
// version of the application would have left behind).
func ExecSQL(file string, stmts ...string) error {
	db, err := sql.Open("sqlite", file+"?_pragma=busy_timeout(8000)")
	if err != nil {
		return err
	}
	defer db.Close()
	for _, st := range stmts {
		if _, err := db.Exec(st); err != nil {
			return fmt.Errorf("%s: %w", st, err)
		}
	}
	return nil
}

// ReadNodePointRows returns, for each id, the canonical list of its node-point rows straight from a store file
// (harness privilege: points of a node that has no edge yet cannot be read through the API).
func ReadNodePointRows(file string, ids []string) (map[string]string, error) {
	db, err := sql.Open("sqlite", file+"?_pragma=busy_timeout(8000)")
	if err != nil {
		return nil, err
	}
	defer db.Close()
	out := map[string]string{}
	for _, id := range ids {
		rows, err := db.Query("SELECT type, key, time, value, text, tombstone FROM node_points WHERE node_id = ? ORDER BY type, key", id)
		if err != nil {
			return nil, err
		}
		var lines []string
		for rows.Next() {
			var typ, key, text sql.NullString
			var tm, tomb sql.NullInt64
			var val sql.NullFloat64
			if err := rows.Scan(&typ, &key, &tm, &val, &text, &tomb); err != nil {
				rows.Close()
				return nil, err
			}
			lines = append(lines, fmt.Sprintf("%s|%s|%d|%v|%s|%d", typ.String, key.String, tm.Int64, val.Float64, text.String, tomb.Int64))
		}
		rows.Close()
		out[id] = strings.Join(lines, ";")
	}
	return out, nil
}

// ReadRootID reads the root id straight from a store file.
func ReadRootID(file string) (string, error) {
	db, err := sql.Open("sqlite", file+"?_pragma=busy_timeout(8000)")
	if err != nil {
		return "", err
	}
	defer db.Close()
	var k string
	err = db.QueryRow("SELECT root_id FROM meta").Scan(&k)
	return k, err
}

// LeftSubscribed is set by Stop2: subscriptions of the store's own connection that were still registered on the
// bus when Store.Run had returned (a stopped store must not keep answering requests).
// Stop2 completes a shutdown after Store.Stop was already called by the harness.
func (i *Inst) Stop2() {
	<-i.done
	prefix := fmt.Sprintf("c%d:", i.StNc.ID())
	for _, sub := range i.Bus.Subscriptions() {
		if strings.HasPrefix(sub, prefix) {
			i.LeftSubscribed = append(i.LeftSubscribed, strings.TrimPrefix(sub, prefix))
		}
	}
	i.Nc.Close()
	i.StNc.Close()
	nats.RemoveBus(i.URL)
}

// ReadRootEdges returns the ids of all nodes placed directly under "root" in a
// store file, and the root id recorded in meta (harness privilege: straight SQL).
func ReadRootEdges(file string) (roots []string, metaRoot string, err error) {
	db, err := sql.Open("sqlite", file+"?_pragma=busy_timeout(8000)")
	if err != nil {
		return nil, "", err
	}
	defer db.Close()
	rows, err := db.Query("SELECT down FROM edges WHERE up='root'")
	if err != nil {
		return nil, "", err
	}
	for rows.Next() {
		var d string
		if err := rows.Scan(&d); err != nil {
			rows.Close()
			return nil, "", err
		}
		roots = append(roots, d)
	}
	rows.Close()
	err = db.QueryRow("SELECT root_id FROM meta").Scan(&metaRoot)
	return roots, metaRoot, err
}

// StopKeepBus completes a shutdown (Store.Stop already called) but keeps the
// bus registered, so that a new store can come up on it (server restart).
func (i *Inst) StopKeepBus() {
	<-i.done
	i.Nc.Close()
	i.StNc.Close()
}
