// Package c04 holds the write histories shared by the crash writer and the checker.
package c04

import (
	"strings"
	"time"

	"github.com/nats-io/nats.go"
	"github.com/simpleiot/simpleiot/client"
	"github.com/simpleiot/simpleiot/data"
)

// Req is one acknowledged write request (= one store transaction).
type Req struct {
	Edge         bool
	Node, Parent string
	Points       data.Points
	What         string
}

// Send issues the request and waits for the acknowledgement.
func Send(nc *nats.Conn, q Req) error {
	pts := append(data.Points{}, q.Points...)
	if q.Edge {
		return client.SendEdgePoints(nc, q.Node, q.Parent, pts, true)
	}
	return client.SendNodePoints(nc, q.Node, pts, true)
}

func t(n int64) time.Time { return time.Unix(0, n) }

func np(node string, what string, pts ...data.Point) Req {
	return Req{Node: node, Points: pts, What: what}
}

func ep(node, parent, what string, pts ...data.Point) Req {
	return Req{Edge: true, Node: node, Parent: parent, Points: pts, What: what}
}

func newEdge(node, parent, typ string, ts int64) Req {
	return ep(node, parent, "new edge "+parent+">"+node, data.Point{Type: data.PointTypeTombstone, Time: t(ts)}, data.Point{Type: data.PointTypeNodeType, Text: typ})
}

// NumHistories is the number of histories.
const NumHistories = 6

// Universe of node ids used by the histories.
var Universe = []string{"A", "B", "C"}

// RootSwitch: history in which a second node is placed below the root sentinel at run time (what an import at
// "root" does): the store makes it the instance root. NewRoot is its id, RootSwitchAt the index of that request.
const (
	RootSwitch   = 5
	NewRoot      = "X"
	RootSwitchAt = 1
)

// History returns the request list of history h.
func History(h int, root string) []Req {
	switch h {
	case 0:
		// every transactional element once: multi-point batch, new edge incl. hash seeding,
		// 3-deep chain so that ancestor hashes move, tombstone, stale write, edge point
		return []Req{
			np("A", "node points A (2)", data.Point{Type: "description", Text: "node A", Time: t(10)}, data.Point{Type: "value", Value: 1.5, Time: t(11)}),
			newEdge("A", root, "group", 12),
			np("B", "node points B", data.Point{Type: "description", Text: "node B", Time: t(20)}),
			newEdge("B", "A", "group", 21),
			newEdge("C", "B", "variable", 30), // edge first
			np("C", "node points C (3)", data.Point{Type: "description", Text: "node C", Time: t(31)}, data.Point{Type: "value", Value: 2.5, Time: t(32)}, data.Point{Type: "value", Key: "1", Value: 3.5, Time: t(33)}),
			np("C", "newer value on C", data.Point{Type: "value", Value: 9, Time: t(40)}),
			ep("B", "A", "delete B under A", data.Point{Type: data.PointTypeTombstone, Value: 1, Time: t(50)}),
			np("C", "stale write on C", data.Point{Type: "value", Value: 7, Time: t(35)}),
			ep("C", "B", "edge point on C>B", data.Point{Type: "role", Text: "r", Value: 2, Time: t(60)}),
			np(root, "point on the root", data.Point{Type: "description", Text: "the root", Time: t(70)}),
		}
	case 1:
		// mirror and diamond: hash propagation over several paths
		return []Req{
			newEdge("A", root, "group", 10),
			newEdge("B", root, "group", 11),
			np("C", "points first on C", data.Point{Type: "value", Value: 1, Time: t(12)}),
			newEdge("C", "A", "variable", 13),
			newEdge("C", "B", "variable", 14),
			np("C", "update on the mirrored node", data.Point{Type: "value", Value: 2, Time: t(15)}, data.Point{Type: "description", Text: "c", Time: t(16)}),
			ep("C", "A", "delete one placement", data.Point{Type: data.PointTypeTombstone, Value: 1, Time: t(17)}),
			ep("C", "A", "undelete it", data.Point{Type: data.PointTypeTombstone, Value: 0, Time: t(18)}),
		}
	case 2:
		// edge above an already populated subtree
		return []Req{
			np("C", "points on C", data.Point{Type: "value", Value: 1, Time: t(10)}),
			newEdge("C", "B", "variable", 11),
			np("B", "points on B", data.Point{Type: "description", Text: "b", Time: t(12)}),
			newEdge("B", "A", "group", 13),
			newEdge("A", root, "group", 14),
			np("C", "update deep below", data.Point{Type: "value", Value: 5, Time: t(15)}),
		}
	case RootSwitch:
		return []Req{
			np(root, "point on the root", data.Point{Type: "description", Text: "first root", Time: t(10)}),
			newEdge(NewRoot, "root", "device", 11),
			np(NewRoot, "point on the new root", data.Point{Type: "description", Text: "second root", Time: t(12)}),
			np(root, "point on the old root", data.Point{Type: "value", Value: 4, Time: t(13)}),
			newEdge("A", NewRoot, "group", 14),
		}
	case 4:
		// long texts: rows that spill into overflow page chains, rewritten and deleted again
		long := func(c string) string { return strings.Repeat(c, 9000) + "." }
		return []Req{
			newEdge("A", root, "group", 10),
			np("A", "9 kB text on A", data.Point{Type: "file", Text: long("a"), Time: t(11)}, data.Point{Type: "value", Value: 1, Time: t(12)}),
			newEdge("B", "A", "variable", 13),
			np("A", "9 kB text rewritten", data.Point{Type: "file", Text: long("b"), Time: t(14)}),
			ep("B", "A", "9 kB text on an edge", data.Point{Type: "cert", Text: long("c"), Time: t(15)}),
			np("A", "text shortened", data.Point{Type: "file", Text: "short", Time: t(16)}),
			ep("B", "A", "delete B under A", data.Point{Type: data.PointTypeTombstone, Value: 1, Time: t(17)}),
		}
	default:
		// large batches: many pages in one transaction
		var many data.Points
		for i := 0; i < 120; i++ {
			many = append(many, data.Point{Type: "arr", Key: string(rune('a'+i%26)) + string(rune('a'+i/26)), Value: float64(i), Text: "some longer text to fill database pages with content", Time: t(int64(100 + i))})
		}
		return []Req{
			newEdge("A", root, "group", 10),
			np("A", "120 points in one batch", many...),
			np("A", "overwrite half of them", func() data.Points {
				var p data.Points
				for i := 0; i < 60; i++ {
					q := many[i*2]
					q.Time = t(int64(1000 + i))
					q.Value = -q.Value
					p = append(p, q)
				}
				return p
			}()...),
		}
	}
}
