package vsel

import "runtime"

func yield() { runtime.Gosched() }
