// Package vsel puts Go's `select` under the control of the explorer. A select statement of the code
// under test is rewritten (cmd/vselgen, applied with `go build -overlay`, /repo untouched) so that it
// first asks Pick which of its receive cases to take. Pick looks at the channels without receiving
// (closed, buffered element, or a blocked sender); if two or more cases are ready — the situation in
// which the Go runtime picks at random — the installed hook decides, otherwise the original select runs.
package vsel

import (
	"os"
	"reflect"
	"sync/atomic"
	"unsafe"
)

// hchan mirrors the head of runtime.hchan (go1.26). The layout is verified by selfTest at start-up;
// if it does not hold, Pick never intervenes (Usable() == false) and the harness reports that.
type hchan struct {
	qcount   uint
	dataqsiz uint
	buf      unsafe.Pointer
	elemsize uint16
	closed   uint32
	timer    unsafe.Pointer
	elemtype unsafe.Pointer
	sendx    uint
	recvx    uint
	recvq    [2]unsafe.Pointer
	sendq    [2]unsafe.Pointer
}

// ready: 1 ready to receive, 0 not ready, -1 unknown (timer channel)
func ready(ch any) int {
	if ch == nil {
		return 0
	}
	v := reflect.ValueOf(ch)
	if v.Kind() != reflect.Chan || v.IsNil() {
		return 0
	}
	h := (*hchan)(unsafe.Pointer(v.Pointer()))
	if h.timer != nil {
		return -1
	}
	if h.qcount > 0 || atomic.LoadUint32(&h.closed) != 0 || h.sendq[0] != nil {
		return 1
	}
	return 0
}

var usable = selfTest()
var debug = os.Getenv("VERIF_VSEL_DEBUG") != ""

// Usable reports whether the channel layout check passed.
func Usable() bool { return usable }

func selfTest() (ok bool) {
	defer func() {
		if recover() != nil {
			ok = false
		}
	}()
	empty := make(chan int)
	buffered := make(chan string, 2)
	closed := make(chan struct{})
	close(closed)
	if ready(empty) != 0 || ready(buffered) != 0 || ready(closed) != 1 {
		return false
	}
	buffered <- "x"
	if ready(buffered) != 1 {
		return false
	}
	<-buffered
	if ready(buffered) != 0 {
		return false
	}
	var nilch chan int
	if ready(nilch) != 0 {
		return false
	}
	// a blocked sender on an unbuffered channel
	started := make(chan struct{})
	go func() { close(started); empty <- 1 }()
	<-started
	for i := 0; i < 1000000 && ready(empty) != 1; i++ {
		if i%100 == 99 {
			yield()
		}
	}
	if ready(empty) != 1 {
		return false
	}
	<-empty
	return ready(empty) == 0
}

// Hook decides among the ready cases: it receives their case indices (ascending, source order) and
// returns a position in that list. Set by the harness for the duration of one execution.
var hook atomic.Pointer[func(ready []int) int]

// SetHook installs (or, with nil, removes) the decision hook.
func SetHook(f func(ready []int) int) {
	if f == nil {
		hook.Store(nil)
		return
	}
	hook.Store(&f)
}

// Stats: selects entered with a hook installed, and how many of them had two or more ready cases.
var Entered, Contended atomic.Int64

// Pick returns the index of the case to take, or -1 to run the original select.
func Pick(chans ...any) int {
	hp := hook.Load()
	if hp == nil || !usable {
		return -1
	}
	Entered.Add(1)
	var rd []int
	for i, c := range chans {
		if ready(c) == 1 {
			rd = append(rd, i)
		}
	}
	if len(rd) < 2 {
		return -1
	}
	Contended.Add(1)
	if debug {
		println("vsel: contended select, ready cases:", len(rd), "first", rd[0], "second", rd[1])
	}
	k := (*hp)(rd)
	if k < 0 || k >= len(rd) {
		k = 0
	}
	return rd[k]
}
