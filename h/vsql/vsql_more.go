package vsql

// The rest of database/sql's surface, so that a harmless refactoring of the store (contexts, prepared
// statements on the DB, null types ...) still compiles against this package. Every operation that can
// block on the database passes a gate.

import (
	"context"
	"database/sql"
	"database/sql/driver"
	"time"

	"verif/h/vgate"
)

var (
	ErrNoRows   = sql.ErrNoRows
	ErrTxDone   = sql.ErrTxDone
	ErrConnDone = sql.ErrConnDone
)

type (
	NullString     = sql.NullString
	NullInt64      = sql.NullInt64
	NullInt32      = sql.NullInt32
	NullInt16      = sql.NullInt16
	NullByte       = sql.NullByte
	NullFloat64    = sql.NullFloat64
	NullBool       = sql.NullBool
	NullTime       = sql.NullTime
	NamedArg       = sql.NamedArg
	TxOptions      = sql.TxOptions
	IsolationLevel = sql.IsolationLevel
	Scanner        = sql.Scanner
	RawBytes       = sql.RawBytes
	Out            = sql.Out
	ColumnType     = sql.ColumnType
	DBStats        = sql.DBStats
)

const (
	LevelDefault         = sql.LevelDefault
	LevelReadUncommitted = sql.LevelReadUncommitted
	LevelReadCommitted   = sql.LevelReadCommitted
	LevelWriteCommitted  = sql.LevelWriteCommitted
	LevelRepeatableRead  = sql.LevelRepeatableRead
	LevelSnapshot        = sql.LevelSnapshot
	LevelSerializable    = sql.LevelSerializable
	LevelLinearizable    = sql.LevelLinearizable
)

func Named(name string, value any) NamedArg { return sql.Named(name, value) }
func Register(name string, d driver.Driver) { sql.Register(name, d) }
func Drivers() []string                     { return sql.Drivers() }

func (db *DB) ExecContext(ctx context.Context, q string, args ...any) (Result, error) {
	vgate.Gate("db.exec", short(q))
	return db.d.ExecContext(ctx, q, args...)
}
func (db *DB) QueryContext(ctx context.Context, q string, args ...any) (*Rows, error) {
	vgate.Gate("db.query", short(q))
	return db.d.QueryContext(ctx, q, args...)
}
func (db *DB) QueryRowContext(ctx context.Context, q string, args ...any) *Row {
	vgate.Gate("db.queryrow", short(q))
	return db.d.QueryRowContext(ctx, q, args...)
}
func (db *DB) BeginTx(ctx context.Context, o *TxOptions) (*Tx, error) {
	vgate.Gate("begin", "")
	t, err := db.d.BeginTx(ctx, o)
	if err != nil {
		return nil, err
	}
	return &Tx{t}, nil
}
func (db *DB) Prepare(q string) (*Stmt, error) {
	vgate.Gate("db.prepare", short(q))
	s, err := db.d.Prepare(q)
	if err != nil {
		return nil, err
	}
	return &Stmt{s}, nil
}
func (db *DB) PrepareContext(ctx context.Context, q string) (*Stmt, error) {
	vgate.Gate("db.prepare", short(q))
	s, err := db.d.PrepareContext(ctx, q)
	if err != nil {
		return nil, err
	}
	return &Stmt{s}, nil
}
func (db *DB) Ping() error                           { return db.d.Ping() }
func (db *DB) PingContext(ctx context.Context) error { return db.d.PingContext(ctx) }
func (db *DB) SetMaxIdleConns(n int)                 { db.d.SetMaxIdleConns(n) }
func (db *DB) SetConnMaxLifetime(d time.Duration)    { db.d.SetConnMaxLifetime(d) }
func (db *DB) SetConnMaxIdleTime(d time.Duration)    { db.d.SetConnMaxIdleTime(d) }
func (db *DB) Stats() DBStats                        { return db.d.Stats() }

func (tx *Tx) ExecContext(ctx context.Context, q string, args ...any) (Result, error) {
	vgate.Gate("tx.exec", short(q))
	return tx.t.ExecContext(ctx, q, args...)
}
func (tx *Tx) QueryContext(ctx context.Context, q string, args ...any) (*Rows, error) {
	vgate.Gate("tx.query", short(q))
	return tx.t.QueryContext(ctx, q, args...)
}
func (tx *Tx) QueryRow(q string, args ...any) *Row {
	vgate.Gate("tx.queryrow", short(q))
	return tx.t.QueryRow(q, args...)
}
func (tx *Tx) QueryRowContext(ctx context.Context, q string, args ...any) *Row {
	vgate.Gate("tx.queryrow", short(q))
	return tx.t.QueryRowContext(ctx, q, args...)
}
func (tx *Tx) PrepareContext(ctx context.Context, q string) (*Stmt, error) {
	vgate.Gate("tx.prepare", short(q))
	s, err := tx.t.PrepareContext(ctx, q)
	if err != nil {
		return nil, err
	}
	return &Stmt{s}, nil
}
func (tx *Tx) Stmt(s *Stmt) *Stmt { return &Stmt{tx.t.Stmt(s.s)} }

func (s *Stmt) ExecContext(ctx context.Context, args ...any) (Result, error) {
	vgate.Gate("stmt.exec", "")
	return s.s.ExecContext(ctx, args...)
}
func (s *Stmt) Query(args ...any) (*Rows, error) {
	vgate.Gate("stmt.query", "")
	return s.s.Query(args...)
}
func (s *Stmt) QueryContext(ctx context.Context, args ...any) (*Rows, error) {
	vgate.Gate("stmt.query", "")
	return s.s.QueryContext(ctx, args...)
}
func (s *Stmt) QueryRow(args ...any) *Row {
	vgate.Gate("stmt.queryrow", "")
	return s.s.QueryRow(args...)
}
func (s *Stmt) QueryRowContext(ctx context.Context, args ...any) *Row {
	vgate.Gate("stmt.queryrow", "")
	return s.s.QueryRowContext(ctx, args...)
}
