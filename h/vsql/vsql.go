// Package vsql replaces database/sql inside store/sqlite.go (overlay import
// rewrite): thin wrappers that pass a scheduling gate before every operation
// and are otherwise pass-through.
package vsql

import (
	"database/sql"
	"strings"

	"verif/h/vgate"
)

func short(q string) string {
	q = strings.Join(strings.Fields(q), " ")
	if len(q) > 40 {
		q = q[:40]
	}
	return q
}

// DB wraps *sql.DB.
type DB struct{ d *sql.DB }

// Tx wraps *sql.Tx.
type Tx struct{ t *sql.Tx }

// Stmt wraps *sql.Stmt.
type Stmt struct{ s *sql.Stmt }

// Rows and Row are used as is (their methods do no further locking in SQLite
// beyond the statement already started).
type (
	Rows   = sql.Rows
	Row    = sql.Row
	Result = sql.Result
)

// Open opens a database.
func Open(driver, dsn string) (*DB, error) {
	d, err := sql.Open(driver, dsn)
	if err != nil {
		return nil, err
	}
	return &DB{d}, nil
}

func (db *DB) Exec(q string, args ...any) (Result, error) {
	vgate.Gate("db.exec", short(q))
	return db.d.Exec(q, args...)
}

func (db *DB) Query(q string, args ...any) (*Rows, error) {
	vgate.Gate("db.query", short(q))
	return db.d.Query(q, args...)
}

func (db *DB) QueryRow(q string, args ...any) *Row {
	vgate.Gate("db.queryrow", short(q))
	return db.d.QueryRow(q, args...)
}

func (db *DB) Begin() (*Tx, error) {
	vgate.Gate("begin", "")
	t, err := db.d.Begin()
	if err != nil {
		return nil, err
	}
	return &Tx{t}, nil
}

func (db *DB) Close() error {
	vgate.Gate("db.close", "")
	return db.d.Close()
}

func (db *DB) SetMaxOpenConns(n int) { db.d.SetMaxOpenConns(n) }

func (tx *Tx) Exec(q string, args ...any) (Result, error) {
	vgate.Gate("tx.exec", short(q))
	return tx.t.Exec(q, args...)
}

func (tx *Tx) Query(q string, args ...any) (*Rows, error) {
	vgate.Gate("tx.query", short(q))
	return tx.t.Query(q, args...)
}

func (tx *Tx) Prepare(q string) (*Stmt, error) {
	vgate.Gate("tx.prepare", short(q))
	s, err := tx.t.Prepare(q)
	if err != nil {
		return nil, err
	}
	return &Stmt{s}, nil
}

func (tx *Tx) Commit() error {
	vgate.Gate("commit", "")
	return tx.t.Commit()
}

func (tx *Tx) Rollback() error {
	vgate.Gate("rollback", "")
	return tx.t.Rollback()
}

func (s *Stmt) Exec(args ...any) (Result, error) {
	vgate.Gate("stmt.exec", "")
	return s.s.Exec(args...)
}

func (s *Stmt) Close() error { return s.s.Close() }
