package vsync

import "sync"

// More names of package sync, passed through.
type (
	Map    = sync.Map
	Pool   = sync.Pool
	Cond   = sync.Cond
	Locker = sync.Locker
)

func NewCond(l Locker) *Cond               { return sync.NewCond(l) }
func OnceFunc(f func()) func()             { return sync.OnceFunc(f) }
func OnceValue[T any](f func() T) func() T { return sync.OnceValue(f) }
