package vsync

import (
	"sync"

	"verif/h/vgate"
)

// RWMutex has the semantics of sync.RWMutex (a waiting writer blocks new readers, so recursive read locking can
// deadlock) built from channels, so that a goroutine waiting for it is durably blocked inside a testing/synctest
// bubble. Scheduling gates are placed only where the order matters: before Lock, and before an RLock that is
// taken while a writer is active or waiting or while the same goroutine already holds a read lock.
type RWMutex struct {
	st            sync.Mutex
	readers       int
	writerWaiting int
	writerActive  bool
	wake          chan struct{}
	holders       map[int64]int // goroutine id -> read locks held
}

func (m *RWMutex) wait() chan struct{} { // called with st held
	if m.wake == nil {
		m.wake = make(chan struct{})
	}
	return m.wake
}

func (m *RWMutex) broadcast() { // called with st held
	if m.wake != nil {
		close(m.wake)
		m.wake = nil
	}
}

// RLock takes a read lock.
func (m *RWMutex) RLock() {
	gid := vgate.GoID()
	m.st.Lock()
	if m.holders == nil {
		m.holders = map[int64]int{}
	}
	contended := m.writerActive || m.writerWaiting > 0 || m.holders[gid] > 0
	m.st.Unlock()
	if contended {
		vgate.Gate("rlock", "")
	}
	for {
		m.st.Lock()
		if !m.writerActive && m.writerWaiting == 0 {
			m.readers++
			m.holders[gid]++
			m.st.Unlock()
			return
		}
		ch := m.wait()
		m.st.Unlock()
		<-ch
	}
}

// RUnlock releases a read lock.
func (m *RWMutex) RUnlock() {
	gid := vgate.GoID()
	m.st.Lock()
	if m.readers <= 0 {
		m.st.Unlock()
		panic("vsync: RUnlock of unlocked RWMutex")
	}
	m.readers--
	if m.holders[gid] > 0 {
		m.holders[gid]--
	}
	m.broadcast()
	m.st.Unlock()
}

// Lock takes the write lock.
func (m *RWMutex) Lock() {
	vgate.Gate("lock", "rw")
	m.st.Lock()
	m.writerWaiting++
	for {
		if !m.writerActive && m.readers == 0 {
			m.writerWaiting--
			m.writerActive = true
			m.st.Unlock()
			return
		}
		ch := m.wait()
		m.st.Unlock()
		<-ch
		m.st.Lock()
	}
}

// Unlock releases the write lock.
func (m *RWMutex) Unlock() {
	m.st.Lock()
	if !m.writerActive {
		m.st.Unlock()
		panic("vsync: Unlock of unlocked RWMutex")
	}
	m.writerActive = false
	m.broadcast()
	m.st.Unlock()
}

// RLocker returns a Locker for the read side.
func (m *RWMutex) RLocker() sync.Locker { return rlocker{m} }

type rlocker struct{ m *RWMutex }

func (r rlocker) Lock()   { r.m.RLock() }
func (r rlocker) Unlock() { r.m.RUnlock() }
