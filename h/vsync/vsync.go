// Package vsync replaces package sync inside store/sqlite.go (overlay import
// rewrite). Mutex is a channel mutex so that a goroutine waiting for it is
// durably blocked in a testing/synctest bubble, and Lock passes a scheduling gate.
package vsync

import (
	"sync"

	"verif/h/vgate"
)

// Mutex is a gated channel mutex. The zero value is an unlocked mutex.
type Mutex struct {
	once sync.Once
	ch   chan struct{}
}

func (m *Mutex) init() { m.once.Do(func() { m.ch = make(chan struct{}, 1) }) }

// Lock passes the gate, then acquires the mutex.
func (m *Mutex) Lock() {
	m.init()
	vgate.Gate("lock", "")
	m.ch <- struct{}{}
}

// Unlock releases the mutex.
func (m *Mutex) Unlock() {
	m.init()
	select {
	case <-m.ch:
	default:
		panic("vsync: unlock of unlocked mutex")
	}
}

// Other names of package sync that callers may use stay available.
type (
	Once      = sync.Once
	WaitGroup = sync.WaitGroup
)
