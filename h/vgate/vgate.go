// Package vgate is the scheduling hook behind the vsql and vsync wrappers that
// an import-rewriting overlay substitutes for database/sql and sync in
// store/sqlite.go. With no hook installed the wrappers are pass-through.
package vgate

import (
	"runtime"
	"strconv"
	"strings"
	"sync/atomic"
)

// Hook, when set, is called before every SQL operation and mutex Lock of
// store/sqlite.go, on the goroutine that performs it; it returns when the
// scheduler grants the operation.
var hook atomic.Pointer[func(kind, detail string)]

// SetHook installs (or with nil removes) the hook.
func SetHook(f func(kind, detail string)) {
	if f == nil {
		hook.Store(nil)
		return
	}
	hook.Store(&f)
}

// Calls counts gate passages (also in pass-through mode) for conformance checks.
var Calls atomic.Int64

// Gate is called by the wrappers.
func Gate(kind, detail string) {
	Calls.Add(1)
	if h := hook.Load(); h != nil {
		(*h)(kind, detail)
	}
}

// GoID returns the current goroutine's id.
func GoID() int64 {
	var buf [64]byte
	n := runtime.Stack(buf[:], false)
	s := strings.TrimPrefix(string(buf[:n]), "goroutine ")
	if i := strings.IndexByte(s, ' '); i > 0 {
		id, _ := strconv.ParseInt(s[:i], 10, 64)
		return id
	}
	return -1
}
