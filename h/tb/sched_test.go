//go:build go1.25

package tb

import (
	"runtime"
	"fmt"
	"os"
	"sort"
	"strings"
	"testing/synctest"
	"time"

	"github.com/nats-io/nats.go"
	"verif/h/mc"
)

// sched is the controlled scheduler of one execution: the bubble's main
// goroutine. Every message delivery on a controlled bus waits for its grant;
// between two grants everything runs until all goroutines are durably blocked
// (synctest.Wait). The default schedule grants the oldest pending delivery
// first; granting another one, or letting the driver issue its next operation
// while deliveries are pending, is a deviation explored by the mc explorer.
type sched struct {
	x        *mc.X
	buses    []*nats.Bus
	grants   int
	maxPend  int
	branched int
	stuck    string
	// choose: offer scheduling choices to the explorer (else always the canonical first)
	choose     bool
	gates      *gateSet // SQL / mutex gates of store/sqlite.go (C20), nil otherwise
	lastThread int64
	// fifo: canonical order is strictly oldest first (the thread that ran last is not preferred)
	fifo  bool
	trace *[]string
	// onDeliver: called for every delivery the scheduler grants
	onDeliver func(d nats.PendingDelivery)
}

var traceEnv = os.Getenv("VERIF_TRACE") != ""

type pend struct {
	bus    int
	d      nats.PendingDelivery
	gate   *gateOp
	thread int64
}

func (p pend) String() string {
	if p.gate != nil {
		return fmt.Sprintf("g%d:%s %s", p.thread, p.gate.kind, p.gate.detail)
	}
	return fmt.Sprintf("g%d:deliver %s", p.thread, p.d.String())
}

// pending lists the enabled transitions in canonical order: the thread that
// ran last first (continuing it is not a preemption), then SQL/mutex gates in
// arrival order, then message deliveries oldest first.
func (s *sched) pending() []pend {
	var out []pend
	var late []pend // driver gates (e.g. shutdown): by default after everything else
	if s.gates != nil {
		for _, g := range s.gates.list() {
			if strings.HasPrefix(g.kind, "driver.") {
				late = append(late, pend{gate: g, thread: g.gid})
				continue
			}
			out = append(out, pend{gate: g, thread: g.gid})
		}
	}
	var dl []pend
	for i, b := range s.buses {
		for _, d := range b.PendingDeliveries() {
			dl = append(dl, pend{bus: i, d: d, thread: d.Thread})
		}
	}
	sort.SliceStable(dl, func(a, b int) bool {
		if dl[a].d.Seq != dl[b].d.Seq {
			return dl[a].d.Seq < dl[b].d.Seq
		}
		return dl[a].bus < dl[b].bus
	})
	out = append(out, dl...)
	if !s.fifo {
		sort.SliceStable(out, func(a, b int) bool {
			return out[a].thread == s.lastThread && out[b].thread != s.lastThread
		})
	}
	out = append(out, late...)
	if len(out) > s.maxPend {
		s.maxPend = len(out)
	}
	return out
}

// step grants one enabled transition (if any) and returns whether it did.
func (s *sched) step(extra int, label string) (granted bool, extraChoice int) {
	synctest.Wait()
	p := s.pending()
	n := len(p) + extra
	if n == 0 {
		return false, -1
	}
	c := 0
	if n > 1 && s.choose {
		c = s.x.Deviate(n, label)
		s.branched++
	}
	if c >= len(p) {
		return false, c - len(p)
	}
	if s.trace != nil {
		*s.trace = append(*s.trace, p[c].String())
	}
	if traceEnv {
		fmt.Printf("  [%s] grant %s   (of %d)\n", time.Now().Format("05.000"), p[c].String(), len(p))
	}
	s.lastThread = p[c].thread
	if p[c].gate != nil {
		s.gates.grant(p[c].gate)
	} else {
		s.buses[p[c].bus].Grant(p[c].d)
		if s.onDeliver != nil {
			s.onDeliver(p[c].d)
		}
	}
	s.grants++
	s.x.Step(1)
	return true, -1
}

// do runs op in its own goroutine and schedules deliveries until it returns.
// If early is false it then keeps scheduling until the system is quiescent
// (no grantable delivery during `quiet` of virtual time, advanced in 10 ms steps
// so that the 10 ms polling loops in simpleiot make progress).
func (s *sched) do(op func() error, early bool) error {
	done := make(chan error, 1)
	go func() { done <- op() }()
	var err error
	finished := false
	idle := 0
	for guard := 0; ; guard++ {
		if guard > 200000 {
			s.stuck = "scheduler: operation does not finish (200000 steps)"
			return fmt.Errorf("%s", s.stuck)
		}
		if g, _ := s.step(0, "deliver"); g {
			idle = 0
			continue
		}
		if !finished {
			select {
			case err = <-done:
				finished = true
				if early {
					return err
				}
				continue
			default:
			}
			// the operation waits for something that is not a delivery: let virtual time pass
			idle++
			if idle > 3100 { // > 31 s: longer than any request timeout (20 s)
				s.stuck = "operation blocked for 31 s of virtual time with nothing deliverable"
				return fmt.Errorf("%s\n%s", s.stuck, blockedStacks())
			}
			time.Sleep(10 * time.Millisecond)
			continue
		}
		return err
	}
}

// doAck runs op in its own goroutine and grants deliveries (oldest first) only until op has
// returned: whatever its writes triggered beyond the acknowledgement stays pending.
func (s *sched) doAck(op func() error) error {
	done := make(chan error, 1)
	go func() { done <- op() }()
	idle := 0
	for guard := 0; guard < 200000; guard++ {
		synctest.Wait()
		select {
		case err := <-done:
			return err
		default:
		}
		if g, _ := s.step(0, "deliver"); g {
			idle = 0
			continue
		}
		idle++
		if idle > 3100 {
			break
		}
		time.Sleep(10 * time.Millisecond)
	}
	s.stuck = "operation blocked for 31 s of virtual time with nothing deliverable"
	return fmt.Errorf("%s\n%s", s.stuck, blockedStacks())
}

// blockedStacks: the goroutines of the process that are inside simpleiot or harness code (for the record of a
// give-up: what was everybody waiting for).
func blockedStacks() string {
	buf := make([]byte, 1<<20)
	buf = buf[:runtime.Stack(buf, true)]
	var keep []string
	for _, g := range strings.Split(string(buf), "\n\n") {
		if strings.Contains(g, "simpleiot/") || strings.Contains(g, "verif/h/") {
			lines := strings.Split(g, "\n")
			if len(lines) > 13 {
				lines = lines[:13]
			}
			keep = append(keep, strings.Join(lines, "\n"))
		}
		if len(keep) >= 12 {
			break
		}
	}
	return "goroutines:\n" + strings.Join(keep, "\n\n")
}

// run advances virtual time by d in 10 ms steps, granting deliveries as they appear.
func (s *sched) run(d time.Duration) {
	end := time.Now().Add(d)
	for {
		for {
			if g, _ := s.step(0, "deliver"); !g {
				break
			}
		}
		if !time.Now().Before(end) {
			return
		}
		time.Sleep(10 * time.Millisecond)
	}
}

// quiesce grants everything that is deliverable, lets 100 ms pass (polling
// loops), and repeats until nothing more happens.
func (s *sched) quiesce() {
	for i := 0; i < 1000; i++ {
		before := s.grants
		s.run(100 * time.Millisecond)
		if s.grants == before {
			return
		}
	}
	s.stuck = "no quiescence after 100 s of virtual time"
}
