//go:build go1.25

package tb

import (
	"fmt"
	"math"
	"strings"
	"testing"
	"time"
	"verif/h/vsel"

	"github.com/simpleiot/simpleiot/client"
	"github.com/simpleiot/simpleiot/data"
	"verif/h/mc"
)

// C08: a client is told of every foreign change to its subtree, never its own.
// Same rig as C07: real store + real manager + instrumented client, controlled bus.

type c08Batch struct {
	origin  string
	target  string
	edge    bool
	pts     func(marker float64) data.Points
	name    string
	churn   int    // 1 = delete the grandchild GK (edge K1>GK), 2 = restore it
	parent  string // edge batches: the parent of the edge written ("" = the instance root)
	refused bool   // a batch the store must refuse (NaN value): nobody may be told of it
	reauthor bool  // the points of the batch before (same values, same times) on the SAME node, sent by another author
	repeat  bool   // the very same points (values, times, origin: byte for byte) as the batch before, written to another node of the subtree
	dupTie  bool   // the batch carries one identity twice with the same timestamp (the later point of the batch is the one that counts)
}

func c08Alphabet() []c08Batch {
	var out []c08Batch
	for _, origin := range []string{"", "N1", "K1", "N2", "other"} {
		for _, target := range []string{"N1", "K1", "GK", "S"} {
			o, tg := origin, target
			out = append(out, c08Batch{o, tg, false, func(m float64) data.Points {
				return data.Points{{Type: "value", Value: m, Origin: o}}
			}, fmt.Sprintf("value on %s by %q", tg, o), 0, "", false, false, false, false})
		}
	}
	// two-point batches and other fields, by a foreign author and by the client itself
	for _, origin := range []string{"N1", "other", ""} {
		o := origin
		out = append(out, c08Batch{o, "N1", false, func(m float64) data.Points {
			return data.Points{{Type: "description", Text: fmt.Sprintf("d%v", m), Origin: o}, {Type: "arr", Key: "1", Value: m, Origin: o}}
		}, fmt.Sprintf("description+arr[1] on N1 by %q", o), 0, "", false, false, false, false})
		out = append(out, c08Batch{o, "K1", false, func(m float64) data.Points {
			return data.Points{{Type: "description", Text: fmt.Sprintf("k%v", m), Origin: o}, {Type: "value", Value: m, Origin: o}}
		}, fmt.Sprintf("description+value on K1 by %q", o), 0, "", false, false, false, false})
	}
	out = append(out, c08Batch{"other", "N1", true, func(m float64) data.Points {
		return data.Points{{Type: "role", Text: fmt.Sprintf("r%v", m), Origin: "other"}}
	}, `edge point role on N1 by "other"`, 0, "", false, false, false, false})
	// batches the store refuses (a NaN value next to a regular point): a refused write is not a change
	for _, tg := range []string{"N1", "K1"} {
		tg := tg
		out = append(out, c08Batch{origin: "other", target: tg, refused: true, pts: func(m float64) data.Points {
			return data.Points{{Type: "value", Value: m, Origin: "other"}, {Type: "broken", Value: math.NaN(), Origin: "other"}}
		}, name: fmt.Sprintf("value + NaN on %s by \"other\" (must be refused)", tg)})
	}
	// one identity twice in one batch, both with the same timestamp (two samples taken in the same instant): store and client must agree on which one counts
	for _, tg := range []string{"N1", "K1"} {
		tg := tg
		out = append(out, c08Batch{origin: "other", target: tg, dupTie: true, pts: func(m float64) data.Points {
			return data.Points{{Type: "value", Value: m, Origin: "other"}, {Type: "value", Value: m + 0.5, Origin: "other"}}
		}, name: fmt.Sprintf("value twice with one timestamp on %s by \"other\"", tg)})
	}
	// the batch before, byte for byte, on another node of the client's subtree (two sensors report the same reading at the same instant)
	out = append(out, c08Batch{repeat: true, name: "the same points again on another node of the subtree"})
	// the batch before, same values and times, same node, another author: only the origin differs (the store overwrites on the tie)
	out = append(out, c08Batch{reauthor: true, name: "the same points again on the same node by another author"})
	// an edge point (not a tombstone) on the edge between the client's node and its child, and one level further down
	out = append(out, c08Batch{origin: "other", target: "K1", edge: true, parent: "N1", pts: func(m float64) data.Points {
		return data.Points{{Type: "role", Text: fmt.Sprintf("r%v", m), Origin: "other"}}
	}, name: `edge point role on N1>K1 by "other"`})
	out = append(out, c08Batch{origin: "other", target: "GK", edge: true, parent: "K1", pts: func(m float64) data.Points {
		return data.Points{{Type: "role", Text: fmt.Sprintf("r%v", m), Origin: "other"}}
	}, name: `edge point role on K1>GK by "other"`})
	return out
}

// classification by the statement
func (b c08Batch) mustTell() bool {
	if b.refused {
		return false
	}
	inSubtree := b.target == "N1" || b.target == "K1" || b.target == "GK"
	return inSubtree && b.origin != "" && b.origin != "N1"
}

func (b c08Batch) mustNotTell() bool {
	return b.refused || b.origin == "N1" || (b.origin == "" && b.target == "N1")
}

// churn: small alphabet around a grandchild that is deleted and restored (each of these restarts the
// client, which is allowed here); writes made while it is deleted are not classified.
func c08Body(t *testing.T, depth int, order bool, churn ...bool) mc.Body {
	alpha := c08Alphabet()
	isChurn := len(churn) > 0 && churn[0]
	if isChurn {
		var a2 []c08Batch
		for _, b := range alpha {
			if b.origin == "other" && !b.edge && len(b.pts(1)) == 1 && b.target != "S" {
				a2 = append(a2, b)
			}
		}
		tomb := func(v float64) func(float64) data.Points {
			return func(float64) data.Points {
				return data.Points{{Type: data.PointTypeTombstone, Value: v, Origin: "other"}}
			}
		}
		a2 = append(a2, c08Batch{churn: 1, origin: "other", target: "GK", edge: true, pts: tomb(1), name: "delete GK (below K1)"},
			c08Batch{churn: 2, origin: "other", target: "GK", edge: true, pts: tomb(0), name: "restore GK"})
		alpha = a2
	}
	return func(x *mc.X) mc.Outcome {
		var out mc.Outcome
		bubble(t, func() {
			vsel.SetHook(func(ready []int) int {
				return x.Deviate(len(ready), fmt.Sprintf("manager select: ready cases %v", ready))
			})
			defer vsel.SetHook(nil)
			g, err := newRig(x, false)
			if err != nil {
				out = mc.Outcome{Violation: "HARNESS: " + err.Error(), Key: "harness"}
				return
			}
			defer g.stopAll()
			root := g.inst.RootID
			// fixture: N1 (vNode) > K1 (vKid) > GK ; sibling S
			err = g.s.do(func() error {
				mk := func(id, parent, typ string, pts ...data.Point) error {
					if err := g.points(id, pts...); err != nil {
						return err
					}
					return g.edge(id, parent, typ, false, "creator")
				}
				if err := mk("N1", root, "vNode", data.Point{Type: "description", Text: "n1", Origin: "creator"}, data.Point{Type: "value", Value: 1, Origin: "creator"}); err != nil {
					return err
				}
				// K1 is a MOVED node: first placed under the unrelated sibling S and deleted there, then placed
				// under N1 (so its oldest edge is a tombstoned one)
				if err := mk("S", root, "other", data.Point{Type: "description", Text: "s", Origin: "creator"}); err != nil {
					return err
				}
				if err := mk("K1", "S", "vKid", data.Point{Type: "description", Text: "k1", Origin: "creator"}); err != nil {
					return err
				}
				if err := g.edge("K1", "S", "", true, "creator"); err != nil {
					return err
				}
				if err := g.edge("K1", "N1", "vKid", false, "creator"); err != nil {
					return err
				}
				if err := mk("GK", "K1", "vGrand", data.Point{Type: "description", Text: "gk", Origin: "creator"}); err != nil {
					return err
				}

				// a second client of the same type exists next to it (the manager runs one client per node)
				if err := mk("N2", root, "vNode", data.Point{Type: "description", Text: "n2", Origin: "creator"}); err != nil {
					return err
				}
				return nil
			}, false)
			if err != nil {
				out = mc.Outcome{Violation: "HARNESS: fixture: " + err.Error(), Key: "harness"}
				return
			}
			// the client may be busy for 150 ms while it handles the first batch it is told of (the batches that
			// follow must still reach it in the order they were accepted)
			if !isChurn && !order && x.Choose(2, "client: prompt / busy during its first Points call") == 1 {
				g.reg.firstPointsDelay = 150 * time.Millisecond
				x.Logf("the client is busy for 150 ms during its first Points call")
			}
			g.startManager()
			g.s.quiesce()
			c := g.reg.clients[root+"-N1"]
			if c == nil {
				out = mc.Outcome{Violation: "no client constructed for N1 (C07)", Key: "harness-no-client"}
				return
			}
			g.s.choose = order
			nEvents := len(g.reg.events)
			var hist []c08Batch
			var markers []float64
			var prevPts data.Points
			classified := !isChurn
			gkLive := true
			lastTimes := map[string]time.Time{} // identity -> time of its newest point so far
			unclassified := map[int]bool{}      // steps whose write hit the grandchild while it was deleted
			for d := 0; d < depth; d++ {
				b := alpha[x.Choose(len(alpha), "batch")]
				if (b.churn == 1 && !gkLive) || (b.churn == 2 && gkLive) {
					out = mc.Outcome{Trivial: true, Obs: "inapplicable"}
					return
				}
				if b.churn == 0 && b.target == "GK" && !gkLive {
					unclassified[d] = true
				}
				marker := float64(100 + d)
				var pts data.Points
				if b.reauthor {
					if d == 0 || hist[d-1].churn != 0 || hist[d-1].refused || hist[d-1].edge || hist[d-1].repeat || hist[d-1].reauthor || hist[d-1].target == "S" || hist[d-1].origin == "other2" {
						out = mc.Outcome{Trivial: true, Obs: "inapplicable"}
						return
					}
					prev := hist[d-1]
					b = prev
					b.reauthor = true
					b.origin = "other2"
					b.pts = func(m float64) data.Points {
						ps := prev.pts(m)
						for i := range ps {
							ps[i].Origin = "other2"
						}
						return ps
					}
					b.name = fmt.Sprintf("the points of the batch before (same values and times) on %s by \"other2\"", b.target)
					marker = markers[d-1]
					pts = append(data.Points{}, prevPts...)
					for i := range pts {
						pts[i].Origin = "other2"
					}
				} else if b.repeat {
					if d == 0 || hist[d-1].churn != 0 || hist[d-1].refused || hist[d-1].edge || hist[d-1].repeat || hist[d-1].reauthor || hist[d-1].target == "S" || hist[d-1].target == "GK" {
						out = mc.Outcome{Trivial: true, Obs: "inapplicable"}
						return
					}
					prev := hist[d-1]
					b = prev
					b.repeat = true
					b.target = map[string]string{"N1": "K1", "K1": "N1"}[prev.target]
					b.name = fmt.Sprintf("the points of the batch before, byte for byte, on %s", b.target)
					marker = markers[d-1]
					pts = append(data.Points{}, prevPts...)
				} else {
					pts = b.pts(marker)
				}
				early := order && x.Deviate(2, "next batch before quiescence") == 1
				// timestamps are non-decreasing per identity: the batch may carry exactly the time of the batch before it
				// (a tie: the store overwrites on ties, so the client must be told and both must agree afterwards)
				sameTime := !isChurn && d > 0 && x.Choose(2, "timestamp: later than / equal to the newest point of the same identity") == 1
				err := g.s.do(func() error {
					for i := range pts {
						if b.repeat || b.reauthor {
							break // (the times of the batch before are kept)
						}
						id := fmt.Sprintf("%s|%v|%s|%s|%s", b.target, b.edge, b.parent, pts[i].Type, pts[i].Key)
						if t0, ok := lastTimes[id]; sameTime && ok {
							pts[i].Time = t0 // exactly the time of the newest point of this identity
						} else {
							pts[i].Time = g.tick()
						}
						lastTimes[id] = pts[i].Time
					}
					if b.dupTie {
						pts[1].Time = pts[0].Time
					}
					if b.churn != 0 {
						return client.SendEdgePoints(g.inst.Nc, "GK", "K1", pts, true)
					}
					if b.edge {
						par := root
						if b.parent != "" {
							par = b.parent
						}
						return client.SendEdgePoints(g.inst.Nc, b.target, par, pts, true)
					}
					return client.SendNodePoints(g.inst.Nc, b.target, pts, true)
				}, early)
				prevPts = append(data.Points{}, pts...)
				if b.refused {
					if err == nil {
						out = mc.Outcome{Violation: "a batch with a NaN value was accepted (C05)", Key: "nan-accepted"}
						return
					}
				} else if err != nil {
					out = mc.Outcome{Violation: "legal write refused: " + err.Error(), Key: "legal-write-refused"}
					return
				}
				if !early {
					g.s.quiesce()
				}
				if sameTime {
					x.Logf("%s (marker %v, ties with the newest point of each identity)", b.name, marker)
				} else {
					x.Logf("%s (marker %v)", b.name, marker)
				}
				if b.churn != 0 {
					gkLive = b.churn == 2
				}
				hist = append(hist, b)
				markers = append(markers, marker)
				if !b.mustTell() && !b.mustNotTell() && b.target != "S" {
					classified = false
				}
			}
			g.s.quiesce()
			if g.reg.firstPointsDelay > 0 {
				// let the busy client finish what it is doing (it notes a batch when it is done with it)
				g.s.run(g.reg.firstPointsDelay + 100*time.Millisecond)
				g.s.quiesce()
			}
			if g.s.stuck != "" {
				out = mc.Outcome{Violation: g.s.stuck, Key: "no-progress"}
				return
			}
			// ---- what was the client told?
			g.reg.mu.Lock()
			events := append([]vEvent{}, g.reg.events[nEvents:]...)
			g.reg.mu.Unlock()
			markerOf := func(e vEvent) float64 {
				for _, p := range e.pts {
					if p.Value >= 100 {
						return p.Value
					}
					var m float64
					if _, err := fmt.Sscanf(p.Text, "d%v", &m); err == nil {
						return m
					}
					if _, err := fmt.Sscanf(p.Text, "k%v", &m); err == nil {
						return m
					}
					if _, err := fmt.Sscanf(p.Text, "r%v", &m); err == nil {
						return m
					}
				}
				return -1
			}
			told := map[float64]int{}
			toldAt := map[string]int{} // "marker@node"
			var toldOrder []float64
			var toldAtOrder []string
			restarted := false
			for _, e := range events {
				switch e.kind {
				case "points", "edgepoints":
					m := markerOf(e)
					told[m]++
					toldOrder = append(toldOrder, m)
					toldAt[fmt.Sprintf("%v@%s", m, e.node)]++
					toldAtOrder = append(toldAtOrder, fmt.Sprintf("%v@%s", m, e.node))
					// content check: the event must be one of the batches of that marker written to the node it names
					// (two batches share a marker when the second repeats the first on another node or under another author)
					matched, any := false, false
					for i, b := range hist {
						if markers[i] != m || e.node != b.target {
							continue
						}
						any = true
						want := b.pts(m)
						if len(want) != len(e.pts) {
							continue
						}
						same := true
						for j := range want {
							if want[j].Type != e.pts[j].Type || want[j].Key != e.pts[j].Key || want[j].Value != e.pts[j].Value || want[j].Text != e.pts[j].Text || want[j].Origin != e.pts[j].Origin {
								same = false
							}
						}
						matched = matched || same
					}
					if !matched {
						_ = any
						out = mc.Outcome{Violation: fmt.Sprintf("the client was told node=%s points=[%s]: no batch of the history wrote that there (history: %s)", e.node, ptsString(e.pts), strings.Join(x.History(), "; ")), Key: "told-different-content"}
						return
					}
				case "construct":
					restarted = true
				}
			}
			if restarted && !isChurn {
				out = mc.Outcome{Violation: "client was restarted by plain point updates: " + strings.Join(x.History(), "; "), Key: "unexpected-restart"}
				return
			}
			var mustOrder []string
			for i, b := range hist {
				m := markers[i]
				if b.churn != 0 || unclassified[i] {
					continue
				}
				at := fmt.Sprintf("%v@%s", m, b.target)
				want, maybe := 0, 0 // batches of this marker on this node that must be told / that the statement leaves open
				for j, bj := range hist {
					if markers[j] != m || bj.target != b.target || bj.churn != 0 || unclassified[j] {
						continue
					}
					switch {
					case bj.mustTell():
						want++
					case !bj.mustNotTell():
						maybe++
					}
				}
				if b.mustTell() {
					if maybe == 0 {
						mustOrder = append(mustOrder, at)
					}
					if toldAt[at] < want || toldAt[at] > want+maybe {
						out = mc.Outcome{Violation: fmt.Sprintf("foreign change %q (history: %s) was told %d times to the client, expected %d", b.name, strings.Join(x.History(), "; "), toldAt[at], want), Key: fmt.Sprintf("foreign-change-not-told-once/target=%s", b.target)}
						return
					}
				}
				if b.mustNotTell() && want == 0 && toldAt[at] > 0 {
					out = mc.Outcome{Violation: fmt.Sprintf("the client was told of its own change %q", b.name), Key: "own-change-echoed"}
					return
				}
			}
			// order of acceptance
			isMust := map[string]bool{}
			for _, at := range mustOrder {
				isMust[at] = true
			}
			var seenMust []string
			for _, at := range toldAtOrder {
				if isMust[at] {
					seenMust = append(seenMust, at)
				}
			}
			if fmt.Sprint(seenMust) != fmt.Sprint(mustOrder) {
				out = mc.Outcome{Violation: fmt.Sprintf("foreign changes accepted in order %v were told in order %v (history: %s)", mustOrder, seenMust, strings.Join(x.History(), "; ")), Key: "told-out-of-order"}
				return
			}
			// folding what it was told (plus what it authored) gives what the store holds
			if classified {
				// the configuration it was started with, plus (in history order) its own writes and what it was told
				cfg := c.cfg0
				cfg.Kids = append([]VKid{}, cfg.Kids...)
				for i, b := range hist {
					m := markers[i]
					switch {
					case !b.refused && b.mustNotTell() && b.target == "N1":
						_ = data.MergePoints("N1", b.pts(m), &cfg) // its own writes: it knows them
					case told[m] > 0 && b.edge:
						par := root
						if b.parent != "" {
							par = b.parent
						}
						_ = data.MergeEdgePoints(b.target, par, b.pts(m), &cfg)
					case told[m] > 0:
						_ = data.MergePoints(b.target, b.pts(m), &cfg)
					}
				}
				var cur VNode
				err := g.s.do(func() error {
					nodes, e := client.GetNodes(g.inst.Nc, root, "N1", "", false)
					if e != nil || len(nodes) != 1 {
						return fmt.Errorf("read N1: %v", e)
					}
					kids, _ := client.GetNodes(g.inst.Nc, "N1", "all", "", false)
					nec := data.NodeEdgeChildren{NodeEdge: nodes[0]}
					for _, k := range kids {
						nec.Children = append(nec.Children, data.NodeEdgeChildren{NodeEdge: k})
					}
					return data.Decode(nec, &cur)
				}, false)
				if err == nil && cfg.canon() != cur.canon() {
					// K1 written by the client itself (origin N1) is its own knowledge as well
					ownOnKid := false
					for _, b := range hist {
						if b.origin == "N1" && b.target != "N1" {
							ownOnKid = true
						}
					}
					if !ownOnKid {
						out = mc.Outcome{Violation: fmt.Sprintf("client that folds everything it is told holds {%s}, the store holds {%s} (history: %s)", cfg.canon(), cur.canon(), strings.Join(x.History(), "; ")), Key: "folded-config-differs"}
						return
					}
				}
			}
			out.Obs = fmt.Sprint(toldOrder)
		})
		return out
	}
}

func TestC08(t *testing.T) {
	runCheck(t, "C08", "model_checking", func(r *mc.Report, t *testing.T) {
		depth := 2
		if thorough() {
			depth = 3
		}
		r.Explore(mc.Config{Name: fmt.Sprintf("batch-sequences-d%d", depth), Serial: true, SplitDepth: 1, SelfCheckEvery: 53,
			Rule: fmt.Sprintf("all sequences of %d batches over a 33-batch alphabet: author in {\"\", the client's id, a child's id, a sibling client's id, another party} x target in {client node, child, grand-child, unrelated sibling}, one- and two-point batches, batches the store refuses (NaN), batches that carry one identity twice with the same timestamp, edge-point batches on the client node's own edge, on the edge to its child and on the edge to its grand-child; each batch carries one origin and a unique marker, and its points are either later than everything before or carry exactly the time of the newest point of their identity (a tie); the client either prompt or busy for 150 ms (longer than the quiescence window) during its first Points call; Points/EdgePoints callbacks of the instrumented client compared with the accepted history (told exactly once and in order for foreign changes in the subtree, never for its own), and the folded configuration compared with Decode of the store's node", depth)},
			c08Body(t, depth, false))
		r.Explore(mc.Config{Name: "delivery-order-d2", Serial: true, SplitDepth: 1, DevBound: 1,
			Rule: "the same alphabet, sequences of 2 batches, with one scheduling deviation (another pending delivery first, or the second batch written before the system is quiescent)"},
			c08Body(t, 2, true))
		cd := 4
		if thorough() {
			cd = 5
		}
		r.Explore(mc.Config{Name: fmt.Sprintf("grandchild-churn-d%d", cd), Serial: true, SplitDepth: 2,
			Rule: fmt.Sprintf("all sequences of %d operations over {foreign value on the client node, on the child, on the grand-child; delete the grand-child; restore it}, each followed by a run to quiescence (deleting / restoring a descendant restarts the client, which is allowed here): every foreign write made while its target is live is told exactly once and in order — also after the target was deleted, written to and restored", cd)},
			c08Body(t, cd, false, true))
		r.Assume("batches with an empty origin aimed at a descendant are not classified by the statement and only checked for content; batches for the unrelated sibling must simply not disturb the rest")
	})
}

func init() {
	bodies["C08/batch-sequences-d2"] = func(t *testing.T) mc.Body { return c08Body(t, 2, false) }
	bodies["C08/batch-sequences-d3"] = func(t *testing.T) mc.Body { return c08Body(t, 3, false) }
	bodies["C08/grandchild-churn-d4"] = func(t *testing.T) mc.Body { return c08Body(t, 4, false, true) }
	bodies["C08/grandchild-churn-d5"] = func(t *testing.T) mc.Body { return c08Body(t, 5, false, true) }
	bodies["C08/delivery-order-d2"] = func(t *testing.T) mc.Body { return c08Body(t, 2, true) }
}
