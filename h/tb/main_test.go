//go:build go1.25

// Package tb holds the tier-B harnesses: every execution runs inside a
// testing/synctest bubble (virtual clock, precise quiescence detection) and is
// driven by the mc explorer. Compiled with go1.26.8 as a test binary:
//
//	VERIF_TIER=quick bin/verifb.test -test.run '^TestC13$'
package tb

import (
	"fmt"
	"io"
	"log"
	"os"
	"runtime"
	"runtime/debug"
	"strings"
	"testing"
	"testing/synctest"

	"verif/h/mc"
)

func root() string {
	if r := os.Getenv("VERIF_ROOT"); r != "" {
		return r
	}
	return "/verif"
}

func thorough() bool { return os.Getenv("VERIF_TIER") == "thorough" }

func tier() string {
	if thorough() {
		return "thorough"
	}
	return "quick"
}

func TestMain(m *testing.M) {
	debug.SetMaxStack(16 << 20)
	if os.Getenv("VERIF_LOG") == "" {
		log.SetOutput(io.Discard)
	}
	os.Exit(m.Run())
}

// bodies for exec-one / replay
var bodies = map[string]func(t *testing.T) mc.Body{}

// runCheck is the common entry of a tier-B check.
func runCheck(t *testing.T, id, level string, fn func(r *mc.Report, t *testing.T)) {
	if seq := os.Getenv("VERIF_EXEC_ONE"); seq != "" { // "<part>|<choices json>"
		i := strings.Index(seq, "|")
		mk, ok := bodies[id+"/"+seq[:i]]
		if !ok {
			fmt.Fprintln(os.Stderr, "HARNESS-ERROR: exec-one: unknown part", seq[:i])
			os.Exit(3)
		}
		os.Exit(mc.ExecOneJSON(mk(t), seq[i+1:]))
	}
	r := mc.NewReport(root(), id, tier(), level)
	if _, n := mc.Shard(); n == 1 && os.Getenv("VERIF_NOSHARD") == "" {
		r.RunSharded(runtime.NumCPU(), os.Args[1:])
	} else {
		fn(r, t)
	}
	os.Exit(r.Finish())
}

// bubble runs f inside a synctest bubble and converts the panic synctest
// raises when goroutines are still blocked at the end into a return value.
func bubble(t *testing.T, f func()) (leak string) {
	var inner any
	defer func() {
		if r := recover(); r != nil {
			if inner != nil {
				// f itself panicked; the bubble then complains about the goroutines f left blocked. The
				// first panic is the one that matters (it used to be lost here, leaving process-wide hooks
				// of the aborted execution installed: the cause of the "operation blocked" give-ups, §10)
				panic(inner)
			}
			s := fmt.Sprint(r)
			if strings.Contains(s, "blocked goroutines remain") || strings.Contains(s, "deadlock") {
				leak = s
				return
			}
			panic(r)
		}
	}()
	synctest.Test(t, func(t *testing.T) {
		// a panic inside the bubble's goroutine would abort the test binary: carry it out
		defer func() {
			if r := recover(); r != nil {
				inner = fmt.Sprintf("%v\n%s", r, debug.Stack())
			}
		}()
		f()
	})
	if inner != nil {
		panic(inner)
	}
	return ""
}
