//go:build go1.25

package tb

import (
	"sync"

	"verif/h/vgate"
)

// gateSet collects goroutines parked at an SQL-operation or mutex gate.
type gateOp struct {
	seq    uint64
	gid    int64
	kind   string
	detail string
	ch     chan struct{}
}

type gateSet struct {
	mu   sync.Mutex
	ops  []*gateOp
	seq  uint64
	seen int
}

// install makes every SQL operation / Lock of store/sqlite.go wait for a grant.
func (g *gateSet) install() {
	vgate.SetHook(func(kind, detail string) {
		op := &gateOp{gid: vgate.GoID(), kind: kind, detail: detail, ch: make(chan struct{})}
		g.mu.Lock()
		g.seq++
		op.seq = g.seq
		g.ops = append(g.ops, op)
		g.seen++
		g.mu.Unlock()
		<-op.ch
	})
}

func (g *gateSet) remove() {
	vgate.SetHook(nil)
	g.mu.Lock()
	ops := g.ops
	g.ops = nil
	g.mu.Unlock()
	for _, op := range ops {
		close(op.ch)
	}
}

func (g *gateSet) list() []*gateOp {
	g.mu.Lock()
	defer g.mu.Unlock()
	return append([]*gateOp{}, g.ops...)
}

func (g *gateSet) grant(op *gateOp) {
	g.mu.Lock()
	for i, o := range g.ops {
		if o == op {
			g.ops = append(g.ops[:i:i], g.ops[i+1:]...)
			break
		}
	}
	g.mu.Unlock()
	close(op.ch)
}
