//go:build go1.25

package tb

import (
	"fmt"
	"sort"
	"strings"
	"testing"
	"testing/synctest"
	"time"
	"verif/h/vsel"

	"github.com/nats-io/nats.go"
	"github.com/simpleiot/simpleiot/client"
	"github.com/simpleiot/simpleiot/data"
	"verif/h/mc"
)

// C13: a rule is active exactly when all of its conditions hold.
// Seam: the real client.NewRuleClient(...).Run() on the in-process bus, no
// store: points are injected as up.<parent>.<node> messages (what the store
// rebroadcasts), everything the rule publishes is captured; synctest.Wait()
// separates batches; schedule conditions run on the bubble's virtual clock.

type c13Cond struct {
	c    client.Condition
	name string
}

func c13PointConds() []c13Cond {
	var out []c13Cond
	type ft struct{ node, typ, key string }
	filters := []ft{{"", "", ""}, {"n1", "", ""}, {"", "value", ""}, {"", "", "1"}, {"n1", "value", ""}, {"n1", "value", "1"}, {"", "value", "1"}, {"n1", "", "1"}}
	type cmp struct {
		vt, op string
		v      float64
		txt    string
	}
	cmps := []cmp{
		{data.PointValueNumber, data.PointValueGreaterThan, 5, ""}, {data.PointValueNumber, data.PointValueLessThan, 5, ""},
		{data.PointValueNumber, data.PointValueEqual, 5, ""}, {data.PointValueNumber, data.PointValueNotEqual, 5, ""},
		{data.PointValueOnOff, "", 1, ""}, {data.PointValueOnOff, "", 0, ""},
		{data.PointValueText, data.PointValueEqual, 0, "ab"}, {data.PointValueText, data.PointValueNotEqual, 0, "ab"}, {data.PointValueText, data.PointValueContains, 0, "ab"},
	}
	for _, f := range filters {
		for _, m := range cmps {
			out = append(out, c13Cond{client.Condition{ConditionType: data.PointValuePointValue, NodeID: f.node, PointType: f.typ, PointKey: f.key,
				ValueType: m.vt, Operator: m.op, Value: m.v, ValueText: m.txt},
				fmt.Sprintf("%s%s%v%s[node=%q type=%q key=%q]", m.vt, m.op, m.v, m.txt, f.node, f.typ, f.key)})
		}
	}
	// fields left over from another value type (the UI keeps the operator / text / number points when the
	// value type of a condition is switched): they must not take part in the comparison
	var stale []cmp
	for _, op := range []string{data.PointValueGreaterThan, data.PointValueLessThan, data.PointValueEqual, data.PointValueNotEqual, data.PointValueContains} {
		stale = append(stale, cmp{data.PointValueOnOff, op, 1, "ab"}, cmp{data.PointValueOnOff, op, 0, ""})
	}
	for _, m := range cmps {
		switch m.vt {
		case data.PointValueNumber:
			stale = append(stale, cmp{m.vt, m.op, m.v, "ab"})
		case data.PointValueText:
			stale = append(stale, cmp{m.vt, m.op, 5, m.txt})
		}
	}
	for _, f := range []ft{filters[0], filters[5]} {
		for _, m := range stale {
			out = append(out, c13Cond{client.Condition{ConditionType: data.PointValuePointValue, NodeID: f.node, PointType: f.typ, PointKey: f.key,
				ValueType: m.vt, Operator: m.op, Value: m.v, ValueText: m.txt},
				fmt.Sprintf("%s%s%v%s(leftover fields)[node=%q type=%q key=%q]", m.vt, m.op, m.v, m.txt, f.node, f.typ, f.key)})
		}
	}
	return out
}

// reference interpreter of one point condition
func c13Matches(c client.Condition, node string, p data.Point) bool {
	return (c.NodeID == "" || c.NodeID == node) && (c.PointKey == "" || c.PointKey == p.Key) && (c.PointType == "" || c.PointType == p.Type)
}

func c13Holds(c client.Condition, p data.Point) bool {
	switch c.ValueType {
	case data.PointValueNumber:
		switch c.Operator {
		case data.PointValueGreaterThan:
			return p.Value > c.Value
		case data.PointValueLessThan:
			return p.Value < c.Value
		case data.PointValueEqual:
			return p.Value == c.Value
		case data.PointValueNotEqual:
			return p.Value != c.Value
		}
	case data.PointValueOnOff:
		return (c.Value != 0) == (p.Value != 0)
	case data.PointValueText:
		switch c.Operator {
		case data.PointValueEqual:
			return p.Text == c.ValueText
		case data.PointValueNotEqual:
			return p.Text != c.ValueText
		case data.PointValueContains:
			return strings.Contains(p.Text, c.ValueText)
		}
	}
	return false
}

type c13Pub struct {
	subject string
	typ     string
	value   float64
	text    string
	origin  string
}

func (p c13Pub) String() string {
	return fmt.Sprintf("%s{%s=%v %q origin=%q}", p.subject, p.typ, p.value, p.text, p.origin)
}

func sortedPubs(ps []c13Pub) []string {
	var s []string
	for _, p := range ps {
		s = append(s, p.String())
	}
	sort.Strings(s)
	return s
}

type c13Rig struct {
	bus  *nats.Bus
	nc   *nats.Conn
	pubs []c13Pub
	rc   client.Client
	done chan error
}

var c13seq int

func c13Start(rule client.Rule) *c13Rig {
	c13seq++
	url := fmt.Sprintf("nats://c13-%d", c13seq)
	g := &c13Rig{bus: nats.NewBus(url, nats.Inline), done: make(chan error, 1)}
	g.nc = g.bus.Connect()
	g.bus.Spy(func(subject, reply string, d []byte) {
		if strings.HasPrefix(subject, "p.") {
			pts, err := data.PbDecodePoints(d)
			if err != nil {
				g.pubs = append(g.pubs, c13Pub{subject: subject, typ: "UNDECODABLE"})
				return
			}
			for _, p := range pts {
				g.pubs = append(g.pubs, c13Pub{subject, p.Type, p.Value, p.Text, p.Origin})
			}
		}
	})
	g.rc = client.NewRuleClient(g.bus.Connect(), rule)
	go func() { g.done <- g.rc.Run() }()
	synctest.Wait()
	return g
}

func (g *c13Rig) stop() bool {
	g.rc.Stop(nil)
	synctest.Wait()
	nats.RemoveBus(g.bus.Name)
	select {
	case <-g.done:
		return true
	default:
		return false
	}
}

// c13BadActions puts a misconfigured action in front of each list (a set-value action without point type, an
// action of an unknown kind): the well-formed actions behind them must still run.
func c13BadActions(r client.Rule) client.Rule {
	r.Actions = append([]client.Action{{ID: "bad1", Parent: "rule1", Action: data.PointValueSetValue, NodeID: "target", PointType: ""}}, r.Actions...)
	r.ActionsInactive = append([]client.Action{{ID: "bad2", Parent: "rule1", Action: "noSuchAction", NodeID: "target", PointType: "x"}}, r.ActionsInactive...)
	return r
}

// c13DropBad removes what concerns the misconfigured actions and the error reports (their wording is not
// part of the statement) from a publication list.
func c13DropBad(ps []c13Pub) []c13Pub {
	var out []c13Pub
	for _, p := range ps {
		if p.subject == "p.bad1" || p.subject == "p.bad2" || p.typ == data.PointTypeError {
			continue
		}
		out = append(out, p)
	}
	return out
}

func c13Rule(conds []client.Condition) client.Rule {
	r := client.Rule{ID: "rule1", Parent: "P", Description: "r"}
	for i, c := range conds {
		c.ID = fmt.Sprintf("cond%d", i)
		c.Parent = "rule1"
		r.Conditions = append(r.Conditions, c)
	}
	// two actions per list (different targets, number / on-off / text values): every action of a list runs
	r.Actions = []client.Action{{ID: "act1", Parent: "rule1", Action: data.PointValueSetValue, NodeID: "target", PointType: "out", ValueType: data.PointValueNumber, Value: 42, ValueText: "on-text"},
		{ID: "act2", Parent: "rule1", Action: data.PointValueSetValue, NodeID: "target2", PointType: "flag", ValueType: data.PointValueOnOff, Value: 1}}
	r.ActionsInactive = []client.Action{{ID: "inact1", Parent: "rule1", Action: data.PointValueSetValue, NodeID: "target", PointType: "out", ValueType: data.PointValueNumber, Value: 7},
		{ID: "inact2", Parent: "rule1", Action: data.PointValueSetValue, NodeID: "target2", PointType: "msg", ValueType: data.PointValueText, ValueText: "off-text"}}
	return r
}

// expected publications for a state change
func c13Expect(condActive []bool, newCond []bool, ruleActive *bool) []c13Pub {
	var exp []c13Pub
	for i := range newCond {
		if newCond[i] != condActive[i] {
			exp = append(exp, c13Pub{fmt.Sprintf("p.cond%d", i), data.PointTypeActive, data.BoolToFloat(newCond[i]), "", "rule1"})
			condActive[i] = newCond[i]
		}
	}
	all := true
	for _, a := range condActive {
		all = all && a
	}
	if all != *ruleActive {
		*ruleActive = all
		exp = append(exp, c13Pub{"p.rule1", data.PointTypeActive, data.BoolToFloat(all), "", ""})
		if all {
			exp = append(exp, c13Pub{"p.target", "out", 42, "on-text", "rule1"}, c13Pub{"p.act1", data.PointTypeActive, 1, "", "rule1"}, c13Pub{"p.inact1", data.PointTypeActive, 0, "", "rule1"},
				c13Pub{"p.target2", "flag", 1, "", "rule1"}, c13Pub{"p.act2", data.PointTypeActive, 1, "", "rule1"}, c13Pub{"p.inact2", data.PointTypeActive, 0, "", "rule1"})
		} else {
			exp = append(exp, c13Pub{"p.target", "out", 7, "", "rule1"}, c13Pub{"p.inact1", data.PointTypeActive, 1, "", "rule1"}, c13Pub{"p.act1", data.PointTypeActive, 0, "", "rule1"},
				c13Pub{"p.target2", "msg", 0, "off-text", "rule1"}, c13Pub{"p.inact2", data.PointTypeActive, 1, "", "rule1"}, c13Pub{"p.act2", data.PointTypeActive, 0, "", "rule1"})
		}
	}
	return exp
}

// c13Settle keeps, per condition, only the last "active" publication of a batch
// and drops it when it equals the state the condition had before the batch.
func c13Settle(pubs []c13Pub, prev []bool) []c13Pub {
	last := map[string]int{}
	for i, p := range pubs {
		if strings.HasPrefix(p.subject, "p.cond") && p.typ == data.PointTypeActive {
			last[p.subject] = i
		}
	}
	var out []c13Pub
	for i, p := range pubs {
		if strings.HasPrefix(p.subject, "p.cond") && p.typ == data.PointTypeActive {
			if last[p.subject] != i {
				continue
			}
			var idx int
			fmt.Sscanf(p.subject, "p.cond%d", &idx)
			if idx < len(prev) && (p.value == 1) == prev[idx] {
				continue
			}
		}
		out = append(out, p)
	}
	return out
}

func c13Class(c client.Condition) string {
	if c.ConditionType == data.PointValueSchedule {
		return "schedule"
	}
	return c.ValueType + c.Operator
}

// storedFlags: the rule and its conditions start with every combination of stored `active` flags (a rule
// client restarted after its configuration changed), and the rule without conditions is included.
func c13PointsBody(t *testing.T, nBatches int, twoPoint bool, storedFlags ...bool) mc.Body {
	flags := len(storedFlags) > 0 && storedFlags[0]
	// third optional flag: configuration updates at run time (single-condition rules only)
	cfgUpd := len(storedFlags) > 1 && storedFlags[1]
	// fourth optional flag: conditions that filter on key "0", points with keys "0", "1", "2" (never "")
	keyZero := len(storedFlags) > 2 && storedFlags[2]
	conds := c13PointConds()
	if flags {
		// comparisons that cannot be evaluated (operator unknown or not defined for the value kind): such a
		// condition can never hold, whatever it was before
		for _, m := range []struct{ vt, op string }{{data.PointValueNumber, data.PointValueContains}, {data.PointValueText, data.PointValueGreaterThan}, {data.PointValueNumber, "noSuchOperator"}} {
			conds = append(conds, c13Cond{client.Condition{ConditionType: data.PointValuePointValue, ValueType: m.vt, Operator: m.op, Value: 5, ValueText: "ab"},
				fmt.Sprintf("%s %s (cannot be evaluated)", m.vt, m.op)})
		}
	}
	if keyZero {
		var cz []c13Cond
		for _, c := range conds {
			if c.c.PointKey == "1" {
				c.c.PointKey = "0"
				c.name = strings.Replace(c.name, `key="1"`, `key="0"`, 1)
				cz = append(cz, c)
			}
		}
		conds = cz
	}
	// rule configurations: every single condition; pairs over a reduced set
	type cfg struct{ idx []int }
	var cfgs []cfg
	for i := range conds {
		cfgs = append(cfgs, cfg{[]int{i}})
	}
	red := []int{}
	for i, c := range conds {
		if c.c.NodeID == "" && c.c.PointKey == "" && (c.c.PointType == "" || c.c.Operator == data.PointValueGreaterThan || c.c.Operator == data.PointValueContains) {
			if strings.Contains(c.name, "(leftover fields)") && !(c.c.ValueType == data.PointValueOnOff && c.c.Operator == data.PointValueNotEqual) &&
				!(c.c.ValueType == data.PointValueNumber && c.c.Operator == data.PointValueGreaterThan) {
				continue // (left-over fields are a matter of one condition; two of them stand for the rest in the pairs)
			}
			red = append(red, i)
		}
	}
	for _, a := range red {
		for _, b := range red {
			cfgs = append(cfgs, cfg{[]int{a, b}})
		}
	}
	if flags {
		cfgs = append(cfgs, cfg{nil})
	}
	if cfgUpd || keyZero {
		cfgs = cfgs[:len(conds)]
	}
	// point alphabet
	var pts []struct {
		node string
		p    data.Point
	}
	for _, node := range []string{"n1", "n2"} {
		for _, typ := range []string{"value", "other"} {
			keys := []string{"", "1"}
			if keyZero {
				keys = []string{"0", "1", "2"}
			}
			for _, key := range keys {
				for _, v := range []float64{4, 5, 6, 0, 1} {
					pts = append(pts, struct {
						node string
						p    data.Point
					}{node, data.Point{Type: typ, Key: key, Value: v}})
				}
				for _, tx := range []string{"ab", "xaby", "a"} {
					pts = append(pts, struct {
						node string
						p    data.Point
					}{node, data.Point{Type: typ, Key: key, Text: tx, Value: 1}})
				}
			}
		}
	}
	if !keyZero && !cfgUpd {
		// points that carry the rule's own id as origin (what a set-value action of this rule wrote and the store
		// rebroadcast): they are matching points like any other
		for _, v := range []float64{4, 6} {
			pts = append(pts, struct {
				node string
				p    data.Point
			}{"n1", data.Point{Type: "value", Value: v, Origin: "rule1"}})
		}
	}
	return func(x *mc.X) mc.Outcome {
		cf := cfgs[x.Choose(len(cfgs), "rule")]
		var cs []client.Condition
		var names []string
		for _, i := range cf.idx {
			cs = append(cs, conds[i].c)
			names = append(names, conds[i].name)
		}
		var out mc.Outcome
		leak := bubble(t, func() {
			rule := c13Rule(cs)
			condActive := make([]bool, len(cs))
			ruleActive := false
			bad := false
			if flags {
				bad = x.Choose(2, "misconfigured actions in front of the lists") == 1
				if bad {
					rule = c13BadActions(rule)
				}
				ruleActive = x.Choose(2, "stored rule flag") == 1
				rule.Active = ruleActive
				for i := range condActive {
					condActive[i] = x.Choose(2, "stored condition flag") == 1
					rule.Conditions[i].Active = condActive[i]
				}
			}
			// the rule client's select: with several ready cases the first in source order is taken (not a random one)
			vsel.SetHook(func(ready []int) int { return x.Deviate(len(ready), "rule client select") })
			defer vsel.SetHook(nil)
			g := c13Start(rule)
			x.Logf("rule: %s (stored flags: rule %v, conditions %v)", strings.Join(names, " AND "), ruleActive, condActive)
			for b := 0; b < nBatches; b++ {
				nChoices := len(pts)
				if cfgUpd {
					nChoices += 2
				}
				k := x.Choose(nChoices, "point")
				var batch data.Points
				var node string
				if k >= len(pts) {
					// the condition's comparison value is changed while the rule runs (what the client manager does with
					// a point written to the condition node); the rule then evaluates a trigger point of its own
					nv := []float64{4.5, 5.5}[k-len(pts)]
					cs[0].Value = nv
					g.pubs = nil
					g.rc.Points("cond0", []data.Point{{Type: data.PointTypeValue, Value: nv, Time: time.Now()}})
					synctest.Wait()
					x.Step(1)
					x.Logf("comparison value of the condition set to %v", nv)
					batch = data.Points{{Type: data.PointTypeTrigger, Time: time.Now()}}
					node = "rule1"
				} else {
					batch = data.Points{pts[k].p}
					node = pts[k].node
				}
				if twoPoint {
					if k2 := x.Choose(len(pts)+1, "second point"); k2 > 0 && pts[k2-1].node == node {
						batch = append(batch, pts[k2-1].p)
					}
				}
				for i := range batch {
					batch[i].Time = time.Now()
				}
				if k < len(pts) {
					g.pubs = nil
					d, _ := batch.ToPb()
					if err := g.nc.Publish("up.P."+node, d); err != nil {
						out = mc.Outcome{Violation: "HARNESS: publish: " + err.Error(), Key: "harness"}
						return
					}
					synctest.Wait()
					x.Step(1)
					x.Logf("batch from %s: %v", node, strings.TrimSpace(batch.String()))
				}
				// reference
				newCond := append([]bool{}, condActive...)
				for _, p := range batch {
					for i, c := range cs {
						if c13Matches(c, node, p) {
							newCond[i] = c13Holds(c, p)
						}
					}
				}
				prevCond := append([]bool{}, condActive...)
				exp := c13Expect(condActive, newCond, &ruleActive)
				// a condition may flip forth and back while the points of one batch are processed: what counts
				// is the state after the batch, so transient condition publications are reduced to the last one
				// (and dropped if that restates the state before the batch)
				pubs := g.pubs
				if bad {
					pubs = c13DropBad(pubs)
				}
				if k >= len(pts) {
					// after a configuration update the rule re-runs the action list of its current state whether or not
					// the state changed (the statement neither demands nor forbids that): only the condition and rule
					// flags are compared for this step
					keep := func(ps []c13Pub) []c13Pub {
						var o []c13Pub
						for _, q := range ps {
							if strings.HasPrefix(q.subject, "p.cond") || q.subject == "p.rule1" {
								o = append(o, q)
							}
						}
						return o
					}
					pubs, exp = keep(pubs), keep(exp)
				}
				got, want := sortedPubs(c13Settle(pubs, prevCond)), sortedPubs(exp)
				if strings.Join(got, "\n") != strings.Join(want, "\n") {
					cls := "no-conditions"
					if len(cs) > 0 {
						cls = c13Class(cs[0])
					}
					if len(cs) > 1 {
						cls += "+" + c13Class(cs[1])
					}
					out = mc.Outcome{Violation: fmt.Sprintf("rule {%s}, after batch %d from %s %v:\nrule published %v\nreference says %v", strings.Join(names, " AND "), b+1, node, strings.TrimSpace(batch.String()), got, want), Key: "rule-output-differs/" + cls}
					g.stop()
					return
				}
			}
			if !g.stop() {
				out = mc.Outcome{Violation: "rule client Run did not return after Stop", Key: "run-does-not-return"}
			}
		})
		if leak != "" && out.Violation == "" {
			out = mc.Outcome{Violation: "goroutines of the rule client still blocked after Stop: " + firstLine(leak), Key: "goroutine-leak"}
		}
		if out.Violation == "" {
			out.Obs = strings.Join(names, "&") + fmt.Sprint(x.Choices()[1:])
		}
		return out
	}
}

func firstLine(s string) string {
	if i := strings.IndexByte(s, '\n'); i >= 0 {
		return s[:i]
	}
	return s
}

// ---- schedule conditions on the virtual clock

// wd: weekdays on which a window may START (nil = every day); 1970-01-01 was a Thursday
func c13SchedModel(startMin, endMin int, t time.Time, wd ...[]time.Weekday) bool {
	sec := t.Unix()
	day := sec / 86400
	for _, D := range []int64{day - 1, day} {
		if len(wd) > 0 && len(wd[0]) > 0 {
			ok := false
			for _, w := range wd[0] {
				if time.Weekday((4+D)%7) == w {
					ok = true
				}
			}
			if !ok {
				continue
			}
		}
		ws := D*86400 + int64(startMin)*60
		we := D*86400 + int64(endMin)*60
		if endMin <= startMin {
			we += 86400
		}
		if sec >= ws && sec < we {
			return true
		}
	}
	return false
}

func c13SchedBody(t *testing.T, steps int) mc.Body {
	type win struct {
		s, e   string
		sm, em int
	}
	// the bubble starts at 2000-01-01T00:00:00Z
	wins := []win{{"00:01", "00:02", 1, 2}, {"23:59", "00:01", 1439, 1}, {"00:00", "00:01", 0, 1}, {"00:02", "00:01", 2, 1}, {"00:01", "00:01", 1, 1}, {"12:00", "13:00", 720, 780}}
	advances := []time.Duration{9 * time.Second, 10 * time.Second, 25 * time.Second, 60 * time.Second, 61 * time.Second}
	return func(x *mc.X) mc.Outcome {
		w := wins[x.Choose(len(wins), "window")]
		// the process's time zone: UTC, or five hours behind it (the rule stamps its trigger points with the local
		// clock; windows and weekdays are defined on the UTC date of the instant, whatever zone it is expressed in)
		zone := x.Choose(2, "time zone of the process")
		// weekday sets (the clock starts on a Saturday): every day, Saturday, Sunday, Friday
		wdSets := [][]time.Weekday{nil, {time.Saturday}, {time.Sunday}, {time.Friday}}
		wdBools := func(ws []time.Weekday) []bool {
			b := make([]bool, 7)
			for _, d := range ws {
				b[d] = true
			}
			if len(ws) == 0 {
				return nil
			}
			return b
		}
		wd1 := wdSets[x.Choose(len(wdSets), "weekdays of the schedule condition")]
		// companion condition: none, a number condition, or a second schedule condition (same window) with its own weekdays
		comp := x.Choose(5, "companion condition")
		withNumber := comp == 1
		var wd2 []time.Weekday
		cs := []client.Condition{{ConditionType: data.PointValueSchedule, Start: w.s, End: w.e, Weekdays: wdBools(wd1)}}
		if withNumber {
			cs = append(cs, client.Condition{ConditionType: data.PointValuePointValue, ValueType: data.PointValueNumber, Operator: data.PointValueGreaterThan, Value: 5, PointType: "value"})
		}
		if comp >= 2 {
			wd2 = wdSets[comp-2]
			cs = append(cs, client.Condition{ConditionType: data.PointValueSchedule, Start: w.s, End: w.e, Weekdays: wdBools(wd2)})
		}
		var out mc.Outcome
		saved := time.Local
		if zone == 1 {
			time.Local = time.FixedZone("UTC-5", -5*3600)
		}
		defer func() { time.Local = saved }()
		leak := bubble(t, func() {
			start := time.Now()
			// the rule client's select: with several ready cases the first in source order is taken (not a random one)
			vsel.SetHook(func(ready []int) int { return x.Deviate(len(ready), "rule client select") })
			defer vsel.SetHook(nil)
			g := c13Start(c13Rule(cs))
			condActive := make([]bool, len(cs))
			ruleActive := false
			lastTick := time.Time{}
			tickBase := start
			x.Logf("schedule %s-%s weekdays %v (companion: number condition %v, second schedule %v weekdays %v), clock starts %s", w.s, w.e, wd1, withNumber, comp >= 2, wd2, start.UTC().Format(time.RFC3339))
			for s := 0; s < steps; s++ {
				op := x.Choose(len(advances)+4, "op")
				g.pubs = nil
				newCond := append([]bool{}, condActive...)
				var exp []c13Pub
				flagsOnly := false
				if op >= len(advances)+2 {
					// the weekday list of the (first) schedule condition is edited while the rule runs — what the client
					// manager does with points written to the condition node; the rule then evaluates a trigger of its own
					nw := [][]time.Weekday{{time.Sunday}, {time.Saturday}}[op-len(advances)-2]
					var pts []data.Point
					for d := 0; d < 7; d++ {
						v := 0.0
						if time.Weekday(d) == nw[0] {
							v = 1
						}
						pts = append(pts, data.Point{Type: data.PointTypeWeekday, Key: fmt.Sprint(d), Value: v, Time: time.Now()})
					}
					wd1 = nw
					tickBase = time.Now() // (the rule client starts a new 10 s ticker whenever its configuration changes)
					g.rc.Points("cond0", pts)
					synctest.Wait()
					x.Logf("weekdays of the schedule condition set to %v at %s", nw, time.Now().UTC().Format("15:04:05"))
					newCond[0] = c13SchedModel(w.sm, w.em, time.Now(), wd1)
					if comp >= 2 {
						newCond[1] = c13SchedModel(w.sm, w.em, time.Now(), wd2) // (the trigger is seen by every schedule condition)
					}
					exp = c13Expect(condActive, newCond, &ruleActive)
					flagsOnly = true
				} else if op < len(advances) {
					// the rule evaluates the schedule at every 10 s tick; replay the ticks in the model
					from := time.Now()
					time.Sleep(advances[op])
					synctest.Wait()
					x.Logf("advance %s -> %s", advances[op], time.Now().UTC().Format("15:04:05"))
					for tk := tickBase.Add(10 * time.Second); !tk.After(time.Now()); tk = tk.Add(10 * time.Second) {
						if !tk.After(from) {
							continue
						}
						lastTick = tk
						newCond[0] = c13SchedModel(w.sm, w.em, tk, wd1)
						if comp >= 2 {
							newCond[1] = c13SchedModel(w.sm, w.em, tk, wd2)
						}
						exp = append(exp, c13Expect(condActive, newCond, &ruleActive)...)
					}
				} else {
					v := []float64{4, 6}[op-len(advances)]
					batch := data.Points{{Type: "value", Value: v, Time: time.Now()}}
					d, _ := batch.ToPb()
					_ = g.nc.Publish("up.P.n1", d)
					synctest.Wait()
					x.Logf("point value=%v", v)
					if withNumber {
						newCond[1] = v > 5
					}
					exp = c13Expect(condActive, newCond, &ruleActive)
				}
				x.Step(1)
				pubs := g.pubs
				if flagsOnly {
					// (after a configuration update the rule re-runs the action list of its current state; only the
					// condition and rule flags are compared for this step, as in the point-condition part)
					keep := func(ps []c13Pub) []c13Pub {
						var o []c13Pub
						for _, q := range ps {
							if strings.HasPrefix(q.subject, "p.cond") || q.subject == "p.rule1" {
								o = append(o, q)
							}
						}
						return o
					}
					pubs, exp = keep(pubs), keep(exp)
				}
				got, want := sortedPubs(pubs), sortedPubs(exp)
				if strings.Join(got, "\n") != strings.Join(want, "\n") {
					out = mc.Outcome{Violation: fmt.Sprintf("schedule %s-%s, step %d (last tick %s): rule published %v, reference says %v\nhistory: %v", w.s, w.e, s+1, lastTick.UTC().Format("15:04:05"), got, want, x.History()), Key: "rule-output-differs/schedule"}
					g.stop()
					return
				}
			}
			if !g.stop() {
				out = mc.Outcome{Violation: "rule client Run did not return after Stop", Key: "run-does-not-return"}
			}
		})
		if leak != "" && out.Violation == "" {
			out = mc.Outcome{Violation: "goroutines still blocked after Stop: " + firstLine(leak), Key: "goroutine-leak"}
		}
		if out.Violation == "" {
			out.Obs = fmt.Sprint(x.Choices())
		}
		return out
	}
}

func TestC13(t *testing.T) {
	runCheck(t, "C13", "model_checking", func(r *mc.Report, t *testing.T) {
		nb, steps := 2, 4
		if thorough() {
			nb, steps = 3, 6
		}
		r.Explore(mc.Config{Name: fmt.Sprintf("point-conditions-b%d", nb), Serial: true, SplitDepth: 2,
			Rule: fmt.Sprintf("rule configurations: each of 106 single point conditions (number > < = !=, on/off, text = != contains; 34 of them with fields left over from another value type: on/off with every operator, number with a text, text with a number; filters by node/type/key) and all ordered pairs over a reduced set, with two set-value actions (number+text, on/off) and two inactive actions (number, text) x all sequences of %d single-point batches over a 66-point alphabet (two of them carrying the rule's own id as origin; 2 nodes x 2 types x 2 keys x values {4,5,6,0,1} / texts {ab,xaby,a}); after every batch everything the rule published is compared with a reference interpreter (condition active points, rule active point, action set-value with the rule as origin, action/inactive-action active points, nothing when nothing changes)", nb)},
			c13PointsBody(t, nb, false))
		nb2 := 1 // (two batches of up to two points would be 17 M sequences per rule configuration)
		r.Explore(mc.Config{Name: fmt.Sprintf("point-conditions-two-point-batches-b%d", nb2), Serial: true, SplitDepth: 2,
			Rule: fmt.Sprintf("same rule configurations x %d batch(es) of 1 or 2 points from one node (all ordered pairs of the 64-point alphabet): the latest matching point of a batch decides, whatever the earlier ones did", nb2)}, c13PointsBody(t, nb2, true))
		r.Explore(mc.Config{Name: "point-conditions-key-zero-b2", Serial: true, SplitDepth: 2,
			Rule: "the 36 single point conditions that filter on key \"0\" x all sequences of 2 single-point batches over points with keys \"0\", \"1\", \"2\" (2 nodes x 2 types x 3 keys x 8 values/texts): only points whose key is \"0\" may move the condition"},
			c13PointsBody(t, 2, false, false, false, true))
		r.Explore(mc.Config{Name: "point-conditions-config-updates-b2", Serial: true, SplitDepth: 2,
			Rule: "each of the 106 single point conditions x all sequences of 2 steps over the 64-point alphabet plus {the condition's comparison value set to 4.5, to 5.5 while the rule runs}: after an update the rule evaluates a trigger point of its own and later points are compared with the new value"},
			c13PointsBody(t, 2, false, false, true))
		r.Explore(mc.Config{Name: "point-conditions-stored-flags-b1", Serial: true, SplitDepth: 2,
			Rule: "same rule configurations plus the rule without conditions, started with every combination of stored `active` flags of the rule and of each condition (a rule client restarted after its configuration changed: the stored rule flag may disagree with the conditions), three more conditions whose comparison cannot be evaluated (operator unknown or not defined for the value kind: never active), with and without a misconfigured action in front of each action list (set-value without point type, unknown action kind: the well-formed actions behind it must still run) x one single-point batch: after the batch the rule is active exactly when all conditions are, and the action list ran iff the rule's state changed"},
			c13PointsBody(t, 1, false, true))
		r.Explore(mc.Config{Name: fmt.Sprintf("schedule-conditions-s%d", steps), Serial: true, SplitDepth: 3,
			Rule: fmt.Sprintf("6 schedule windows around the (virtual) clock start 2000-01-01T00:00:00Z incl. wrap over midnight and start=end, each with weekdays {every day, Saturday (the start day), Sunday, Friday}, alone / AND a number condition / AND a second schedule condition with its own weekdays {every day, Saturday, Sunday}, process time zone UTC or UTC-5 x all sequences of %d operations (clock advances, points, and the weekday list of the schedule condition edited while the rule runs: Sunday only / Saturday only) over {advance 9 s, 10 s, 25 s, 60 s, 61 s, point 4, point 6}; after every operation the publications are compared with the interval model evaluated at each 10 s tick", steps)},
			c13SchedBody(t, steps))
		r.Assume("the rule sees what the store rebroadcasts: up.<parent>.<node> messages (C06); condition key filters compare raw keys, so the alphabet avoids the \"\" / \"0\" aliases")
		r.Assume("goroutine interleavings inside one synctest step are left to the Go runtime; the rule client is a single select loop")
	})
}

func init() {
	bodies["C13/point-conditions-b2"] = func(t *testing.T) mc.Body { return c13PointsBody(t, 2, false) }
	bodies["C13/point-conditions-b3"] = func(t *testing.T) mc.Body { return c13PointsBody(t, 3, false) }
	bodies["C13/point-conditions-two-point-batches-b1"] = func(t *testing.T) mc.Body { return c13PointsBody(t, 1, true) }
	bodies["C13/point-conditions-two-point-batches-b2"] = func(t *testing.T) mc.Body { return c13PointsBody(t, 2, true) }
	bodies["C13/point-conditions-key-zero-b2"] = func(t *testing.T) mc.Body { return c13PointsBody(t, 2, false, false, false, true) }
	bodies["C13/point-conditions-config-updates-b2"] = func(t *testing.T) mc.Body { return c13PointsBody(t, 2, false, false, true) }
	bodies["C13/point-conditions-stored-flags-b1"] = func(t *testing.T) mc.Body { return c13PointsBody(t, 1, false, true) }
	bodies["C13/schedule-conditions-s4"] = func(t *testing.T) mc.Body { return c13SchedBody(t, 4) }
	bodies["C13/schedule-conditions-s6"] = func(t *testing.T) mc.Body { return c13SchedBody(t, 6) }
}
