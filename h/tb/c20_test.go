//go:build go1.25

package tb

import (
	"context"
	"encoding/json"
	"fmt"
	"github.com/simpleiot/simpleiot/store"
	"math"
	"os"
	"path/filepath"
	"sort"
	"strconv"
	"strings"
	"sync"
	"testing"
	"testing/synctest"
	"time"

	"github.com/nats-io/nats.go"
	"github.com/simpleiot/simpleiot/client"
	"github.com/simpleiot/simpleiot/data"
	"verif/h/mc"
	"verif/h/sh"
	"verif/h/vgate"
)

// C20: concurrent use is safe. Real store on a controlled bus; in addition
// every SQL operation and every writeLock.Lock of store/sqlite.go is a
// scheduling point (import-rewrite overlay -> vsql / vsync gates). Threads are
// concurrent clients issuing requests through the real subscriptions, so only
// realisable concurrency is explored (one handler per subscription at a time).

type c20Rec struct {
	mu       sync.Mutex
	problems []string
	acked    map[string]data.Point // identity -> newest acknowledged write
	keys     map[string]string
	refText  map[string]string // refused request -> the error text the store gave when it was sent alone
}

func (r *c20Rec) fail(key, msg string) {
	r.mu.Lock()
	r.problems = append(r.problems, msg)
	if r.keys == nil {
		r.keys = map[string]string{}
	}
	r.keys[msg] = key
	r.mu.Unlock()
}

func (r *c20Rec) ack(id string, p data.Point) {
	r.mu.Lock()
	if cur, ok := r.acked[id]; !ok || p.Time.After(cur.Time) {
		r.acked[id] = p
	}
	r.mu.Unlock()
}

type c20Thread struct {
	name string
	run  func(inst *sh.Inst, nc *nats.Conn, rec *c20Rec, tolerant bool)
}

func c20ts(n int64) time.Time { return time.Unix(0, 2_000_000_000_000_000_000+n) }

func c20Find(ps data.Points, typ, key string) (data.Point, bool) {
	for _, p := range ps {
		if p.Type == typ && (p.Key == key || (p.Key == "0" && key == "")) {
			return p, true
		}
	}
	return data.Point{}, false
}

type c20RefusedReq struct {
	what string
	send func(nc *nats.Conn) error
}

// c20Refused: requests the store must refuse (C05). A refusal must not disturb the clients that run next
// to it, and the requester must get ITS error text (the one the store gives when the request is sent alone).
func c20Refused() []c20RefusedReq {
	return []c20RefusedReq{
		{"new edge Q below N without node type", func(nc *nats.Conn) error {
			return client.SendEdgePoints(nc, "Q", "N", data.Points{{Type: data.PointTypeTombstone, Value: 0, Time: c20ts(50), Origin: "x"}}, true)
		}},
		{"self edge on N", func(nc *nats.Conn) error {
			return client.SendEdgePoints(nc, "N", "N", data.Points{{Type: data.PointTypeTombstone, Value: 0, Time: c20ts(51), Origin: "x"}, {Type: data.PointTypeNodeType, Text: "vtest"}}, true)
		}},
		{"edge that would make the root a child of N (cycle)", func(nc *nats.Conn) error {
			rn, err := client.GetRootNode(nc)
			if err != nil {
				return nil // (counts as accepted: reported by the caller)
			}
			return client.SendEdgePoints(nc, rn.ID, "N", data.Points{{Type: data.PointTypeTombstone, Value: 0, Time: c20ts(55), Origin: "x"}, {Type: data.PointTypeNodeType, Text: "device"}}, true)
		}},
		{"tombstone on the root", func(nc *nats.Conn) error {
			rn, err := client.GetRootNode(nc)
			if err != nil {
				return nil
			}
			return client.SendEdgePoints(nc, rn.ID, "root", data.Points{{Type: data.PointTypeTombstone, Value: 1, Time: c20ts(56), Origin: "x"}}, true)
		}},
		{"NaN node point on N", func(nc *nats.Conn) error {
			return client.SendNodePoints(nc, "N", data.Points{{Type: "nanv", Value: math.NaN(), Time: c20ts(52), Origin: "y"}}, true)
		}},
		{"NaN inside a node-point batch on N", func(nc *nats.Conn) error {
			return client.SendNodePoints(nc, "N", data.Points{{Type: "ok", Value: 1, Time: c20ts(53), Origin: "y"}, {Type: "nanw", Value: math.NaN(), Time: c20ts(54), Origin: "y"}}, true)
		}},
	}
}

func c20Refuse(nc *nats.Conn, rec *c20Rec, tol bool, who string, reqs []c20RefusedReq) {
	for _, q := range reqs {
		err := q.send(nc)
		if tol {
			continue
		}
		switch {
		case err == nil:
			rec.fail("refused-request-accepted", who+": "+q.what+" was accepted")
		case strings.Contains(err.Error(), "timeout") || strings.Contains(err.Error(), "no responders"):
			rec.fail("request-failed/refused-write", who+": "+q.what+" was not answered: "+err.Error())
		default:
			if want, ok := rec.refText[q.what]; ok && err.Error() != want {
				rec.fail("reply-belongs-to-another-request", fmt.Sprintf("%s: %s was answered %q; sent alone the same request is answered %q", who, q.what, err.Error(), want))
			}
		}
	}
}

func c20Threads() []c20Thread {
	readN := func(nc *nats.Conn, root string) (data.NodeEdge, error) {
		ns, err := client.GetNodes(nc, root, "N", "", true)
		if err != nil {
			return data.NodeEdge{}, err
		}
		if len(ns) != 1 {
			return data.NodeEdge{}, fmt.Errorf("%d nodes returned for N", len(ns))
		}
		return ns[0], nil
	}
	return []c20Thread{
		{"W1 node points (write, read own write, write)", func(inst *sh.Inst, nc *nats.Conn, rec *c20Rec, tol bool) {
			p1 := data.Point{Type: "value", Value: 1, Time: c20ts(10), Origin: "w1"}
			if err := client.SendNodePoints(nc, "N", data.Points{p1}, true); err != nil {
				if !tol {
					rec.fail("request-failed/node-points", "W1 first write: "+err.Error())
				}
				return
			}
			rec.ack("N/value", p1)
			n, err := readN(nc, inst.RootID)
			if err != nil {
				if !tol {
					rec.fail("request-failed/read", "W1 read after write: "+err.Error())
				}
				return
			}
			if got, ok := c20Find(n.Points, "value", ""); !ok || got.Time.Before(p1.Time) {
				rec.fail("acknowledged-write-not-visible", fmt.Sprintf("W1: read issued after the acknowledgement of value@%d returned %v", p1.Time.UnixNano(), n.Points))
			}
			p2 := data.Points{{Type: "value", Value: 2, Time: c20ts(20), Origin: "w1"}, {Type: "other", Text: "x", Time: c20ts(21), Origin: "w1"}}
			if err := client.SendNodePoints(nc, "N", append(data.Points{}, p2...), true); err != nil {
				if !tol {
					rec.fail("request-failed/node-points", "W1 second write: "+err.Error())
				}
				return
			}
			rec.ack("N/value", p2[0])
			rec.ack("N/other", p2[1])
		}},
		{"W2 edge points (two writes)", func(inst *sh.Inst, nc *nats.Conn, rec *c20Rec, tol bool) {
			for i, p := range []data.Point{{Type: "role", Text: "a", Value: 1, Time: c20ts(30), Origin: "w2"}, {Type: "role", Text: "b", Value: 2, Time: c20ts(40), Origin: "w2"}} {
				if err := client.SendEdgePoints(nc, "N", inst.RootID, data.Points{p}, true); err != nil {
					if !tol {
						rec.fail("request-failed/edge-points", fmt.Sprintf("W2 write %d: %v", i+1, err))
					}
					return
				}
				rec.ack("edge/role", p)
			}
		}},
		{"R reader (two reads of N, children of the root)", func(inst *sh.Inst, nc *nats.Conn, rec *c20Rec, tol bool) {
			a, err := readN(nc, inst.RootID)
			if err != nil {
				if !tol {
					rec.fail("request-failed/read", "R first read: "+err.Error())
				}
				return
			}
			b, err := readN(nc, inst.RootID)
			if err != nil {
				if !tol {
					rec.fail("request-failed/read", "R second read: "+err.Error())
				}
				return
			}
			for _, pa := range append(append(data.Points{}, a.Points...), a.EdgePoints...) {
				for _, pb := range append(append(data.Points{}, b.Points...), b.EdgePoints...) {
					if pa.Type == pb.Type && pa.Key == pb.Key && pb.Time.Before(pa.Time) {
						rec.fail("read-went-back", fmt.Sprintf("R: %s read @%d, then @%d", pa.Type, pa.Time.UnixNano(), pb.Time.UnixNano()))
					}
				}
			}
			if _, err := client.GetNodes(nc, inst.RootID, "all", "", false); err != nil && !tol {
				rec.fail("request-failed/read", "R children read: "+err.Error())
			}
			// a read of a node that does not exist must be answered too (with an error or an empty list)
			if _, err := client.GetNodes(nc, inst.RootID, "no-such-node", "", false); err != nil && !tol &&
				(strings.Contains(err.Error(), "timeout") || strings.Contains(err.Error(), "no responders")) {
				rec.fail("request-failed/read", "R read of a missing node was not answered: "+err.Error())
			}
		}},
		{"V admin.storeVerify", func(inst *sh.Inst, nc *nats.Conn, rec *c20Rec, tol bool) {
			m, err := nc.Request("admin.storeVerify", nil, 20*time.Second)
			if err != nil {
				if !tol {
					rec.fail("request-failed/verify", "V: "+err.Error())
				}
				return
			}
			if len(m.Data) > 0 && !tol {
				rec.fail("verify-error", "V: admin.storeVerify answered: "+string(m.Data))
			}
		}},
		{"M admin.storeMaint", func(inst *sh.Inst, nc *nats.Conn, rec *c20Rec, tol bool) {
			m, err := nc.Request("admin.storeMaint", nil, 20*time.Second)
			if err != nil {
				if !tol {
					rec.fail("request-failed/maint", "M: "+err.Error())
				}
				return
			}
			_ = m
		}},
		{"X refused edge writes (new edge without node type, self edge, cycle through the root, root tombstone)", func(inst *sh.Inst, nc *nats.Conn, rec *c20Rec, tol bool) {
			c20Refuse(nc, rec, tol, "X", c20Refused()[:4])
		}},
		{"Y refused node writes (NaN values)", func(inst *sh.Inst, nc *nats.Conn, rec *c20Rec, tol bool) {
			c20Refuse(nc, rec, tol, "Y", c20Refused()[4:])
		}},
		{"Z1 a second node placed below the root sentinel (the only write that changes the in-memory root id)", func(inst *sh.Inst, nc *nats.Conn, rec *c20Rec, tol bool) {
			err := client.SendEdgePoints(nc, "root2", "root", data.Points{{Type: data.PointTypeTombstone, Value: 0, Time: c20ts(60), Origin: "z"}, {Type: data.PointTypeNodeType, Text: "device"}}, true)
			if err != nil && !tol {
				rec.fail("request-failed/edge-points", "Z1: "+err.Error())
			}
		}},
		{"Z2 reader of the root (nodes.root.all, three times)", func(inst *sh.Inst, nc *nats.Conn, rec *c20Rec, tol bool) {
			for i := 0; i < 3; i++ {
				if _, err := client.GetNodes(nc, "root", "all", "", false); err != nil && !tol {
					rec.fail("request-failed/read", fmt.Sprintf("Z2 root read %d: %v", i+1, err))
				}
			}
		}},
	}
}

var c20Seq int

// c20Body: threads = indices into c20Threads; withStop adds a concurrent shutdown.
// metrics: the store's metrics run as in a real instance (StartMetrics on the root) and the instance has been up for
// more than one report period when the load starts, so that the handlers report their timing metrics during it.
func c20Body(t *testing.T, combos [][]int, withStop bool, bound int, metrics ...bool) mc.Body {
	threads := c20Threads()
	withMetrics := len(metrics) > 0 && metrics[0]
	return func(x *mc.X) mc.Outcome {
		combo := combos[x.Choose(len(combos), "threads")]
		var out mc.Outcome
		bubble(t, func() {
			c20Seq++
			url := fmt.Sprintf("nats://c20-%d:4222", c20Seq)
			bus := nats.NewBus(url, nats.Controlled)
			s := &sched{x: x, buses: []*nats.Bus{bus}}
			var inst *sh.Inst
			err := s.do(func() error {
				var e error
				if inst, e = sh.New(sh.Opts{URL: url, Mode: nats.Controlled}); e != nil {
					return e
				}
				return client.SendNode(inst.Nc, data.NodeEdge{ID: "N", Parent: inst.RootID, Type: "vtest", Points: data.Points{{Type: "value", Value: 0, Time: c20ts(1)}, {Type: "description", Text: "n", Time: c20ts(2)}}}, "")
			}, false)
			if err != nil {
				out = mc.Outcome{Violation: "HARNESS: " + err.Error(), Key: "harness"}
				return
			}
			file := inst.File
			root := inst.RootID
			rec := &c20Rec{acked: map[string]data.Point{}, refText: map[string]string{}}
			// reference: what each must-be-refused request is answered when it is sent alone
			_ = s.do(func() error {
				for _, q := range c20Refused() {
					if err := q.send(inst.Nc); err != nil {
						rec.refText[q.what] = err.Error()
					}
				}
				return nil
			}, false)
			if withMetrics {
				go func() { _ = inst.Store.StartMetrics(root) }()
				defer func() {
					defer func() { _ = recover() }() // (StopMetrics closes a channel; a second call would panic)
					inst.Store.StopMetrics(nil)
				}()
				s.run(61 * time.Second)
			}
			var names []string
			for _, ti := range combo {
				names = append(names, strings.Fields(threads[ti].name)[0])
			}
			if withMetrics {
				names = append(names, "(metrics running)")
			}
			if withStop {
				names = append(names, "S")
			}
			x.Logf("threads: %s", strings.Join(names, " | "))
			// ---- concurrent phase: every SQL operation / Lock / delivery is a scheduling point
			var trace []string
			s.gates = &gateSet{}
			s.gates.install()
			defer func() {
				if s.gates != nil { // (left here by a panic: never leave the process-wide gate hook of this execution behind)
					s.gates.remove()
				}
			}()
			// one more scheduling point: the moment a reply (acknowledgement or read result) leaves the store
			stNc := inst.StNc
			// requests whose delivery to a store handler was granted (the handler has started) / replies the store
			// has published: a request the store has begun to handle must be answered, whatever happens next
			var dispMu sync.Mutex
			dispatched, replied := map[string]string{}, map[string]bool{}
			nats.SetPublishHook(func(nc *nats.Conn, subj string) {
				if nc == stNc && strings.HasPrefix(subj, "_INBOX.") {
					vgate.Gate("reply.publish", "")
					dispMu.Lock()
					replied[subj] = true
					dispMu.Unlock()
				}
			})
			defer nats.SetPublishHook(nil)
			s.onDeliver = func(d nats.PendingDelivery) {
				if d.Conn == stNc.ID() && d.Reply != "" {
					dispMu.Lock()
					dispatched[d.Reply] = d.Subject
					dispMu.Unlock()
				}
			}
			s.choose = bound > 0
			s.trace = &trace
			var wg sync.WaitGroup
			alldone := make(chan struct{})
			for _, ti := range combo {
				th := threads[ti]
				nc := bus.Connect()
				wg.Add(1)
				go func() { defer wg.Done(); th.run(inst, nc, rec, withStop) }()
			}
			stopped := make(chan struct{})
			if withStop {
				wg.Add(1)
				go func() {
					defer wg.Done()
					vgate.Gate("driver.stop", "Store.Stop") // a scheduling point: the explorer decides when shutdown begins
					inst.Store.Stop(nil)
					close(stopped)
				}()
			}
			go func() { wg.Wait(); close(alldone) }()
			idle := 0
			finished := false
			for guard := 0; !finished; guard++ {
				if g, _ := s.step(0, "schedule"); g {
					idle = 0
					continue
				}
				select {
				case <-alldone:
					finished = true
					continue
				default:
				}
				idle++
				if idle > 3100 || guard > 100000 {
					rec.fail("deadlock-or-unanswered-request", fmt.Sprintf("after %d scheduling steps nothing is enabled and the client threads have not finished for 31 s of virtual time; last steps: %v", len(trace), tail(trace, 12)))
					break
				}
				time.Sleep(10 * time.Millisecond)
			}
			s.gates.remove()
			s.gates = nil
			s.choose = false
			s.trace = nil
			s.onDeliver = nil
			unanswered := func() (subj string) {
				dispMu.Lock()
				defer dispMu.Unlock()
				for inbox, sj := range dispatched {
					if !replied[inbox] && (subj == "" || sj < subj) {
						subj = sj
					}
				}
				return
			}
			if unanswered() != "" {
				s.run(2 * time.Second) // (a handler released from its gate just now may still be on its way)
				if subj := unanswered(); subj != "" {
					rec.fail("dispatched-request-never-answered", fmt.Sprintf("the store began to handle the request on %s (its handler was started) and never published a reply: the requester waits for its whole timeout and cannot tell whether the write happened", subj))
				}
			}
			x.Step(len(trace))
			fail := func() {
				sort.Strings(rec.problems)
				out = mc.Outcome{Violation: fmt.Sprintf("threads {%s}: %s\nschedule tail: %v", strings.Join(names, " | "), rec.problems[0], tail(trace, 16)), Key: rec.keys[rec.problems[0]]}
			}
			if len(rec.problems) > 0 {
				fail()
				_ = s.do(func() error {
					if withStop {
						inst.Stop2() // Store.Stop was already called by the shutdown thread
						os.RemoveAll(inst.Dir)
					} else {
						inst.Close()
					}
					return nil
				}, false)
				nats.RemoveBus(url)
				return
			}
			// ---- quiescent phase: serialisability of the outcome
			check := func(in *sh.Inst, when string) {
				snap, err := in.Snap([]string{root, "N"})
				if err != nil {
					rec.fail("unreadable-afterwards", when+": "+err.Error())
					return
				}
				if d := snap.CheckHashes(); d != "" {
					rec.fail("hash-inconsistent-after-concurrency", when+": "+d)
				}
				for _, e := range snap.Edges {
					if e.Down != "N" {
						continue
					}
					for id, want := range rec.acked {
						var have data.Point
						var ok bool
						switch {
						case strings.HasPrefix(id, "N/"):
							have, ok = c20Find(e.Points, strings.TrimPrefix(id, "N/"), "")
						default:
							have, ok = c20Find(e.EdgePoints, strings.TrimPrefix(id, "edge/"), "")
						}
						if !ok || !have.Time.Equal(want.Time) || have.Value != want.Value || have.Text != want.Text {
							rec.fail("acknowledged-write-lost", fmt.Sprintf("%s: newest acknowledged write for %s is %v@%d, the store holds %v@%d (found=%v)", when, id, want.Value, want.Time.UnixNano(), have.Value, have.Time.UnixNano(), ok))
						}
					}
				}
			}
			if !withStop {
				_ = s.do(func() error {
					check(inst, "after the load stopped")
					before, _ := inst.Snap([]string{root, "N"})
					if m, err := inst.Nc.Request("admin.storeMaint", nil, 20*time.Second); err != nil || len(m.Data) > 0 {
						rec.fail("maint-failed", fmt.Sprintf("admin.storeMaint after the load: %v", err))
					}
					after, _ := inst.Snap([]string{root, "N"})
					if before.String() != after.String() {
						rec.fail("hash-inconsistent-after-concurrency", "store maintenance had something to repair after the load:\n"+before.String()+"->\n"+after.String())
					}
					inst.Close()
					return nil
				}, false)
			} else {
				// shutdown must terminate and leave a file that opens again
				s.run(2 * time.Second)
				select {
				case <-stopped:
				default:
					rec.fail("stop-does-not-return", "Store.Stop did not return")
				}
				_ = s.do(func() error {
					keep := inst.Dir
					inst.Dir = ""
					inst.Stop2()
					if len(inst.LeftSubscribed) > 0 {
						rec.fail("subscription-left-after-stop", fmt.Sprintf("Store.Run has returned but the store is still subscribed to %v (a stopped instance keeps answering these requests on a closed database)", inst.LeftSubscribed))
					}
					in2, err := sh.New(sh.Opts{File: file, NoTemplate: true, URL: url + "-reopen", Mode: nats.Inline})
					if err != nil {
						rec.fail("does-not-reopen", "after Stop the store file does not open again: "+err.Error())
						os.RemoveAll(keep)
						return nil
					}
					if in2.RootID != root {
						rec.fail("root-changed", "root changed over restart")
					}
					check(in2, "after stop and reopen")
					in2.Stop()
					os.RemoveAll(keep)
					return nil
				}, false)
				nats.RemoveBus(url + "-reopen")
			}
			nats.RemoveBus(url)
			if len(rec.problems) > 0 {
				fail()
				return
			}
			out.Obs = strings.Join(names, "|") + fmt.Sprint(len(trace))
		})
		return out
	}
}

func tail(s []string, n int) []string {
	if len(s) > n {
		return s[len(s)-n:]
	}
	return s
}

func TestC20(t *testing.T) {
	runCheck(t, "C20", "model_checking", func(r *mc.Report, t *testing.T) {
		if vgate.Calls.Load() < 0 {
			t.Fatal("unreachable")
		}
		triples := c20Triples(false)
		bound := 2
		if thorough() {
			// thorough: more thread sets at 2 preemptions, and (below) the four basic triples at 3 preemptions
			triples = c20Triples(true)
			defer r.Explore(mc.Config{Name: "schedules-p3", Serial: true, SplitDepth: 5, DevBound: 3,
				Rule: "the triples {W1,W2,R}, {W1,W2,V}, {W1,R,V}, {W2,R,V}: all schedules with at most 3 preemptions; same oracles"},
				c20Body(t, c20Triples(false)[:4], false, 3))
		}
		rule := "threads = concurrent clients of one real store: W1 node-point writer (write, read-own-write, write), W2 edge-point writer, R reader (monotonic reads), V admin.storeVerify, X and Y clients whose requests must be refused (X: new edge without node type, self edge, cycle through the root, root tombstone; Y: NaN values) next to W1, W2 / R and next to each other (each must get its own error text), Z1 / Z2 a write that changes the instance root next to readers of the root (with W1, and with V)%s; all triples; scheduling points = every message delivery, every SQL operation and every Mutex.Lock / RWMutex.Lock (and contended or recursive RLock) in store/sqlite.go, and every reply leaving the store; all schedules with at most %d preemptions; oracles: every request answered (no deadlock), acknowledged writes visible, reads never go back, final content = newest acknowledged writes, hashes consistent, storeMaint has nothing to repair"
		extra := ", M admin.storeMaint (with V and a writer / reader, and with both writers)"
		if thorough() {
			extra = ", M admin.storeMaint, more triples with M and X, and W1 W2 R V together"
		}
		r.Explore(mc.Config{Name: fmt.Sprintf("schedules-p%d", bound), Serial: true, SplitDepth: 4, DevBound: bound, SelfCheckEvery: 211, Rule: fmt.Sprintf(rule, extra, bound)}, c20Body(t, triples, false, bound))
		r.Explore(mc.Config{Name: "schedules-with-metrics-p1", Serial: true, SplitDepth: 4, DevBound: 1,
			Rule: "the store's metrics running as in a real instance (StartMetrics on the root node, instance up for 61 s so that the handlers report their timing metrics while the load runs): thread sets {W1,W2,R}, {W1,W2,V}, all schedules with at most 1 preemption; same oracles"},
			c20Body(t, c20Triples(false)[:2], false, 1, true))
		sb := 1
		if thorough() {
			sb = 2
		}
		r.Explore(mc.Config{Name: fmt.Sprintf("shutdown-p%d", sb), Serial: true, SplitDepth: 4, DevBound: sb,
			Rule: fmt.Sprintf("the pairs {W1,W2}, {W1,R} with a concurrent Store.Stop at every point (at most %d preemptions): Stop returns, no subscription of the store is left on the bus, the file opens again with the same root, every acknowledged write is present, hashes consistent, a request whose handler the store has started is answered", sb)},
			c20Body(t, [][]int{{0, 1}, {0, 2}}, true, sb))
		r.Explore(mc.Config{Name: "shutdown-single-client-p2", Serial: true, SplitDepth: 3, DevBound: 2,
			Rule: "one client alone (W1, W2, V or M) with a concurrent Store.Stop at every point, at most 2 preemptions (the shutdown can overtake a handler that has started and overtake it again at its next step): as shutdown-p1, and a request whose handler the store has started is answered"},
			c20Body(t, [][]int{{0}, {1}, {3}, {4}}, true, 2))
		if i, _ := mc.Shard(); i == 0 {
			c20RacePart(r)
			c20ServerStopPart(r)
			c20StopAroundStartup(r, t)
		}
		r.Assume("a cooperative scheduler cannot see data races: the race clause is decided by the separate free-running `go test -race` pass (part race-pass, sampling, reported as such)")
		r.Assume("goroutine interleavings between two scheduling points are not enumerated; SQLite busy-waits sleep on the virtual clock")
	})
}

// c20RacePart folds in the free-running `go test -race` pass that run.sh
// executed before this binary (TestC20Race in a -race build without gates).
// c20StopAroundStartup: Store.Stop issued at every position around the start of Store.Run (an instance
// whose neighbour actor fails at once is stopped while it is still starting).
func c20StopAroundStartup(r *mc.Report, t *testing.T) {
	p := r.Part("stop-around-startup", "Store.Stop at each of 4 positions around the start of Store.Run (before the Run goroutine exists; right after `go Run()`; once Run is parked in its loop; after WaitStart and one acknowledged write) x 2 files (fresh, already initialised): Run returns (30 s of virtual time), no subscription of the store is left on the bus, the file opens again with the same root and holds the acknowledged write")
	for _, initialised := range []bool{false, true} {
		for pos := 0; pos < 4; pos++ {
			p.Case(true)
			p.Step(1)
			if key, problem := c20StartupCase(t, initialised, pos); problem != "" {
				p.Violation("stop-around-startup/"+key, fmt.Sprintf("%s (file initialised before: %v)", problem, initialised), map[string]any{"position": pos, "initialised": initialised})
			}
		}
	}
	p.Done()
}

func c20StartupCase(t *testing.T, initialised bool, pos int) (key, problem string) {
	{
		{
			bubble(t, func() {
				c20Seq++
				url := fmt.Sprintf("nats://c20s-%d:4222", c20Seq)
				bus := nats.NewBus(url, nats.Async)
				defer nats.RemoveBus(url)
				dir, err := os.MkdirTemp(mc.ScratchDir(), "c20s-")
				if err != nil {
					problem, key = "HARNESS: "+err.Error(), "harness"
					return
				}
				defer os.RemoveAll(dir)
				file := filepath.Join(dir, "db")
				wantRoot := ""
				if initialised {
					in0, err := sh.New(sh.Opts{File: file, NoTemplate: true, Mode: nats.Async, RootID: "rootS"})
					if err != nil {
						problem, key = "HARNESS: "+err.Error(), "harness"
						return
					}
					wantRoot = in0.RootID
					in0.Close()
				}
				stNc := bus.Connect()
				st, err := store.NewStore(store.Params{File: file, Server: url, Nc: stNc, ID: "rootS"})
				if err != nil {
					problem, key = "HARNESS: NewStore: "+err.Error(), "harness"
					return
				}
				done := make(chan error, 1)
				run := func() { go func() { done <- st.Run() }() }
				nc := bus.Connect()
				wrote := false
				switch pos {
				case 0:
					st.Stop(nil)
					run()
				case 1:
					run()
					st.Stop(nil)
				case 2:
					run()
					synctest.Wait()
					st.Stop(nil)
				case 3:
					run()
					ctx, cancel := context.WithTimeout(context.Background(), 20*time.Second)
					err := st.WaitStart(ctx)
					cancel()
					if err != nil {
						problem, key = "store does not start: "+err.Error(), "store-does-not-start"
						return
					}
					rn, err := client.GetRootNode(nc)
					if err != nil {
						problem, key = "root not readable after start: "+err.Error(), "request-failed/read"
						return
					}
					if err := client.SendNodePoints(nc, rn.ID, data.Points{{Type: "startupw", Value: 5, Time: c20ts(1)}}, true); err != nil {
						problem, key = "write after start refused: "+err.Error(), "request-failed/node-points"
						return
					}
					wrote = true
					st.Stop(nil)
				}
				select {
				case <-done:
				case <-time.After(30 * time.Second):
					problem, key = fmt.Sprintf("Store.Run has not returned 30 s after Stop (Stop issued at position %d around the start of Run)", pos), "store-run-does-not-return"
					return
				}
				prefix := fmt.Sprintf("c%d:", stNc.ID())
				for _, sub := range bus.Subscriptions() {
					if strings.HasPrefix(sub, prefix) {
						problem, key = fmt.Sprintf("Store.Run has returned but the store is still subscribed to %s", strings.TrimPrefix(sub, prefix)), "subscription-left-after-stop"
						return
					}
				}
				nc.Close()
				stNc.Close()
				in2, err := sh.New(sh.Opts{File: file, NoTemplate: true, Mode: nats.Async, RootID: "rootS"})
				if err != nil {
					problem, key = "the file does not open again: "+err.Error(), "does-not-reopen"
					return
				}
				defer in2.Close()
				if wantRoot != "" && in2.RootID != wantRoot {
					problem, key = fmt.Sprintf("root %q before, %q after", wantRoot, in2.RootID), "root-changed"
					return
				}
				if wrote {
					ns, err := client.GetNodes(in2.Nc, "root", "all", "", false)
					if err != nil || len(ns) == 0 {
						problem, key = fmt.Sprintf("root not readable after reopen: %v", err), "does-not-reopen"
						return
					}
					if _, ok := c20Find(ns[0].Points, "startupw", ""); !ok {
						problem, key = "the acknowledged write is missing after reopen", "acknowledged-write-lost"
					}
				}
			})
		}
	}
	return key, problem
}

// c20ServerStopPart folds in the result of the in-package test of server.Server (real nats.go, embedded
// nats-server, real time; run by run.sh before this binary; see overlay/srvstop_test.go.txt).
func c20ServerStopPart(r *mc.Report) {
	path := os.Getenv("VERIF_C20_SRVSTOP")
	if path == "" {
		fmt.Fprintln(os.Stderr, "HARNESS-ERROR: C20 must be started through run.sh (server-stop result missing)")
		os.Exit(3)
	}
	b, err := os.ReadFile(path)
	var res struct {
		Cases        int      `json:"cases"`
		Inconclusive []string `json:"inconclusive"`
		Results      []struct {
			Scenario  map[string]any `json:"scenario"`
			Key       string         `json:"key"`
			Violation string         `json:"violation"`
			Harness   string         `json:"harness"`
			Obs       string         `json:"obs"`
		} `json:"results"`
	}
	if err != nil || json.Unmarshal(b, &res) != nil || res.Cases == 0 {
		fmt.Fprintln(os.Stderr, "HARNESS-ERROR: server-stop result unusable:", err)
		os.Exit(3)
	}
	p := r.Part("server-shutdown", "the whole instance as cmd/siot assembles it (server.Server: embedded nats-server, store, HTTP API, node manager, optionally client.DefaultClients, two instrumented clients) on real nats.go in real time, one child process per scenario; complete enumeration of {shutdown triggered by Server.Stop | by a client returning an error} x {0, 1, 3 acknowledged writes before} x {no write | one write in flight when the shutdown starts} x {with | without the default clients} (thorough: also after 11 s, store metrics running): Run returns (60 s bound), a client that is asked to stop can still make an acknowledged write and a read 300 ms later (the store outlives the clients), the in-flight request returns, the same file is served again with the same root and every acknowledged write")
	p.Cases(int64(res.Cases), int64(res.Cases))
	for _, x := range res.Results {
		if x.Violation != "" {
			sc, _ := json.Marshal(x.Scenario)
			p.Violation("server-shutdown/"+x.Key, fmt.Sprintf("scenario %s: %s", sc, x.Violation), x.Scenario)
		}
	}
	if len(res.Inconclusive) > 0 {
		p.Cap(fmt.Sprintf("%d scenario(s) could not be set up or were not confirmed by their re-runs: %s", len(res.Inconclusive), strings.Join(res.Inconclusive, " | ")))
	}
	p.Done()
}

func c20RacePart(r *mc.Report) {
	dir := os.Getenv("VERIF_RACE_DIR")
	if dir == "" {
		fmt.Fprintln(os.Stderr, "HARNESS-ERROR: C20 must be started through run.sh (race pass result missing)")
		os.Exit(3)
	}
	b, err := os.ReadFile(dir + "/race_out.json")
	var res struct {
		Iterations int     `json:"iterations"`
		Threads    int     `json:"threads_per_iteration"`
		WallS      float64 `json:"wall_s"`
	}
	if err != nil || json.Unmarshal(b, &res) != nil || res.Iterations == 0 {
		fmt.Fprintln(os.Stderr, "HARNESS-ERROR: race pass produced no result:", err)
		os.Exit(3)
	}
	p := r.Part("race-pass", "SAMPLING, not exhaustive: the same client threads (plus a new-root-edge writer against root readers and a shutdown) free-running on the asynchronous bus, all cores, real time, built with -race and without the gate overlay; a race report whose racing access is in simpleiot code is a violation")
	p.Cases(int64(res.Iterations), int64(res.Iterations))
	p.Cap("sampling (free-running schedules)")
	files, _ := filepath.Glob(dir + "/race_report*")
	for _, f := range files {
		txt, _ := os.ReadFile(f)
		for _, blk := range strings.Split(string(txt), "==================") {
			if !strings.Contains(blk, "WARNING: DATA RACE") {
				continue
			}
			// for each of the two racing accesses: the innermost frame that is simpleiot or harness code (frames of
			// the standard library and of third-party modules above it are skipped: a race inside hash/crc32 reached
			// from data.Point.CRC is a race of simpleiot's)
			var tops []string
			lines := strings.Split(blk, "\n")
			for i, l := range lines {
				if !(strings.HasPrefix(l, "Write at") || strings.HasPrefix(l, "Read at") || strings.HasPrefix(l, "Previous")) {
					continue
				}
				top := ""
				for j := i + 1; j+1 < len(lines) && strings.TrimSpace(lines[j]) != ""; j += 2 {
					fr := strings.TrimSpace(lines[j]) + " " + strings.TrimSpace(lines[j+1])
					if top == "" {
						top = fr
					}
					if strings.Contains(fr, "/repo/") || strings.Contains(fr, "/verif/") {
						top = fr
						break
					}
				}
				if top != "" {
					tops = append(tops, top)
				}
			}
			inRepo, inHarness := false, true
			for _, tp := range tops {
				if strings.Contains(tp, "/repo/") {
					inRepo = true
				}
				if !strings.Contains(tp, "/verif/") {
					inHarness = false
				}
			}
			switch {
			case inRepo:
				fn := "?"
				for _, tp := range tops {
					if strings.Contains(tp, "/repo/") {
						fn = strings.Fields(tp)[0]
						break
					}
				}
				p.Violation("data-race/"+fn, "race detector report:\n"+blk, map[string]any{"report": blk})
			case inHarness:
				fmt.Fprintln(os.Stderr, "HARNESS-ERROR: data race inside the harness/shim:\n"+blk)
				os.Exit(3)
			default:
				r.Inconclusive("race report outside simpleiot code (library): " + strings.Join(tops, " | "))
			}
		}
	}
	p.Done()
	r.Extra("race_pass", map[string]any{"iterations": res.Iterations, "threads_per_iteration": res.Threads, "wall_s": res.WallS, "kind": "sampling"})
}

// c20Triples: thread sets (indices into c20Threads: W1 W2 R V M X Y Z1 Z2); the thorough list extends the quick one.
func c20Triples(thorough bool) [][]int {
	if only := os.Getenv("VERIF_C20_ONLY"); only != "" { // diagnosis: one thread set, e.g. "0,1,4"
		var t []int
		for _, f := range strings.Split(only, ",") {
			n, _ := strconv.Atoi(f)
			t = append(t, n)
		}
		return [][]int{t, t, t, t}
	}
	ts := [][]int{{0, 1, 2}, {0, 1, 3}, {0, 2, 3}, {1, 2, 3}, {0, 3, 4}, {2, 3, 4}, {0, 1, 5}, {0, 2, 5}, {0, 5, 6}, {0, 1, 4}, {0, 7, 8}, {3, 7, 8}}
	if thorough {
		ts = append(ts, []int{0, 2, 4}, []int{1, 3, 4}, []int{1, 2, 5}, []int{0, 1, 2, 3})
	}
	return ts
}

func init() {
	// replay of the stop-around-startup part: all 8 cases again (they take a fraction of a second)
	bodies["C20/stop-around-startup"] = func(t *testing.T) mc.Body {
		return func(x *mc.X) mc.Outcome {
			for _, initialised := range []bool{false, true} {
				for pos := 0; pos < 4; pos++ {
					if key, problem := c20StartupCase(t, initialised, pos); problem != "" {
						return mc.Outcome{Violation: fmt.Sprintf("%s (file initialised before: %v)", problem, initialised), Key: "stop-around-startup/" + key}
					}
				}
			}
			return mc.Outcome{Obs: "8 cases"}
		}
	}
	bodies["C20/schedules-p2"] = func(t *testing.T) mc.Body { return c20Body(t, c20Triples(true), false, 2) }
	bodies["C20/schedules-p3"] = func(t *testing.T) mc.Body { return c20Body(t, c20Triples(false)[:4], false, 3) }
	bodies["C20/schedules-with-metrics-p1"] = func(t *testing.T) mc.Body { return c20Body(t, c20Triples(false)[:2], false, 1, true) }
	bodies["C20/shutdown-p1"] = func(t *testing.T) mc.Body { return c20Body(t, [][]int{{0, 1}, {0, 2}}, true, 1) }
	bodies["C20/shutdown-single-client-p2"] = func(t *testing.T) mc.Body { return c20Body(t, [][]int{{0}, {1}, {3}, {4}}, true, 2) }
	bodies["C20/shutdown-p2"] = func(t *testing.T) mc.Body { return c20Body(t, [][]int{{0, 1}, {0, 2}}, true, 2) }
}
