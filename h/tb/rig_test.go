//go:build go1.25

package tb

import (
	"fmt"
	"sort"
	"strings"
	"sync"
	"time"

	"github.com/nats-io/nats.go"
	"github.com/simpleiot/simpleiot/client"
	"github.com/simpleiot/simpleiot/data"
	"verif/h/mc"
	"verif/h/sh"
)

// Instrumented client type registered through the public client.NewManager.

type VKid struct {
	ID          string  `node:"id"`
	Parent      string  `node:"parent"`
	Description string  `point:"description"`
	Value       float64 `point:"value"`
}

type VNode struct {
	ID          string  `node:"id"`
	Parent      string  `node:"parent"`
	Description string  `point:"description"`
	Value       float64 `point:"value"`
	Arr         []int   `point:"arr"`
	Role        string  `edgepoint:"role"`
	Kids        []VKid  `child:"vKid"`
}

func (v VNode) canon() string {
	var kids []string
	for _, k := range v.Kids {
		kids = append(kids, fmt.Sprintf("%s:%s:%v", k.ID, k.Description, k.Value))
	}
	sort.Strings(kids)
	return fmt.Sprintf("%s@%s desc=%q value=%v arr=%v role=%q kids=%v", v.ID, v.Parent, v.Description, v.Value, v.Arr, v.Role, kids)
}

type vEvent struct {
	kind   string // construct, run, exit, stop, points, edgepoints
	key    string // parent-id
	node   string // for points: the node the points are for
	parent string
	pts    data.Points
	cfg    string
}

type registry struct {
	mu      sync.Mutex
	name    string
	events  []vEvent
	running map[string]int
	maxRun  map[string]int
	clients map[string]*vClient // last constructed per key
	// stopDelay: how long a client's Run keeps going after Stop (a client that is slow to shut down)
	stopDelay time.Duration
	// firstPointsDelay: the first Points call of this registry's clients takes that long (a busy client)
	firstPointsDelay time.Duration
	delayed          bool
}

func newRegistry(name string) *registry {
	return &registry{name: name, running: map[string]int{}, maxRun: map[string]int{}, clients: map[string]*vClient{}}
}

func (r *registry) add(e vEvent) {
	r.mu.Lock()
	r.events = append(r.events, e)
	r.mu.Unlock()
}

// runningKeys returns the placements with a client inside Run.
func (r *registry) runningKeys() []string {
	r.mu.Lock()
	defer r.mu.Unlock()
	var out []string
	for k, n := range r.running {
		for i := 0; i < n; i++ {
			out = append(out, k)
		}
	}
	sort.Strings(out)
	return out
}

type vClient struct {
	reg      *registry
	key      string
	cfg0     VNode // as constructed
	mu       sync.Mutex
	cfg      VNode // cfg0 with everything it was told folded in
	stop     chan struct{}
	errs     []string
	quit     chan struct{}
	quitOnce sync.Once
}

func (r *registry) construct(nc *nats.Conn, cfg VNode) client.Client {
	c := &vClient{reg: r, key: cfg.Parent + "-" + cfg.ID, cfg0: cfg, cfg: cfg, stop: make(chan struct{}), quit: make(chan struct{})}
	r.mu.Lock()
	r.clients[c.key] = c
	r.events = append(r.events, vEvent{kind: "construct", key: c.key, cfg: cfg.canon()})
	r.mu.Unlock()
	return c
}

func (c *vClient) Run() error {
	c.reg.mu.Lock()
	c.reg.running[c.key]++
	if c.reg.running[c.key] > c.reg.maxRun[c.key] {
		c.reg.maxRun[c.key] = c.reg.running[c.key]
	}
	c.reg.events = append(c.reg.events, vEvent{kind: "run", key: c.key})
	c.reg.mu.Unlock()
	var err error
	select {
	case <-c.stop:
		if c.reg.stopDelay > 0 {
			time.Sleep(c.reg.stopDelay)
		}
	case <-c.quit:
		// the client gives up on its own (lost its device, fatal error): Run returns without Stop
		err = fmt.Errorf("client %s gave up", c.key)
	}
	c.reg.mu.Lock()
	c.reg.running[c.key]--
	c.reg.events = append(c.reg.events, vEvent{kind: "exit", key: c.key})
	c.reg.mu.Unlock()
	return err
}

// giveUp makes the running client of the given key return from Run on its own; false if there is none.
func (r *registry) giveUp(key string) bool {
	r.mu.Lock()
	c := r.clients[key]
	running := r.running[key] > 0
	r.mu.Unlock()
	if c == nil || !running {
		return false
	}
	c.quitOnce.Do(func() { close(c.quit) })
	return true
}

func (c *vClient) Stop(error) {
	c.reg.add(vEvent{kind: "stop", key: c.key})
	close(c.stop)
}

func (c *vClient) Points(id string, pts []data.Point) {
	if d := c.reg.firstPointsDelay; d > 0 {
		// a client that is busy while it handles the first batch it is told of
		c.reg.mu.Lock()
		first := !c.reg.delayed
		c.reg.delayed = true
		c.reg.mu.Unlock()
		if first {
			time.Sleep(d)
		}
	}
	c.reg.add(vEvent{kind: "points", key: c.key, node: id, pts: append(data.Points{}, pts...)})
	c.mu.Lock()
	if err := data.MergePoints(id, pts, &c.cfg); err != nil {
		c.errs = append(c.errs, err.Error())
	}
	c.mu.Unlock()
}

func (c *vClient) EdgePoints(id, parent string, pts []data.Point) {
	c.reg.add(vEvent{kind: "edgepoints", key: c.key, node: id, parent: parent, pts: append(data.Points{}, pts...)})
	c.mu.Lock()
	if err := data.MergeEdgePoints(id, parent, pts, &c.cfg); err != nil {
		c.errs = append(c.errs, err.Error())
	}
	c.mu.Unlock()
}

// rig: real store + real manager on a controlled bus, inside a bubble.
type rig struct {
	s       *sched
	bus     *nats.Bus
	inst    *sh.Inst
	reg     *registry
	mgr     *client.Manager[VNode]
	mgrNc   *nats.Conn
	mgrDone chan error
	clock   int64
}

var rigSeq int

// newRig starts a store on a fresh database. chooseOrder: offer delivery-order
// choices to the explorer (else always oldest first).
func newRig(x *mc.X, chooseOrder bool) (*rig, error) {
	rigSeq++
	url := fmt.Sprintf("nats://rig%d:4222", rigSeq)
	g := &rig{bus: nats.NewBus(url, nats.Controlled), reg: newRegistry("main"), mgrDone: make(chan error, 1), clock: time.Now().UnixNano()}
	g.s = &sched{x: x, buses: []*nats.Bus{g.bus}, choose: false}
	err := g.s.do(func() error {
		inst, err := sh.New(sh.Opts{URL: url, Mode: nats.Controlled})
		g.inst = inst
		return err
	}, false)
	g.s.choose = chooseOrder
	return g, err
}

func (g *rig) startManager() {
	g.mgrNc = g.bus.Connect()
	g.mgr = client.NewManager(g.mgrNc, g.reg.construct, []string{"vParent"})
	go func() { g.mgrDone <- g.mgr.Run() }()
}

// tick returns strictly increasing timestamps close to the virtual now.
func (g *rig) tick() time.Time {
	n := time.Now().UnixNano()
	if n <= g.clock {
		n = g.clock + 1
	}
	g.clock = n
	return time.Unix(0, n)
}

func (g *rig) edge(node, parent, typ string, deleted bool, origin string) error {
	v := 0.0
	if deleted {
		v = 1
	}
	pts := data.Points{{Type: data.PointTypeTombstone, Value: v, Time: g.tick(), Origin: origin}}
	if typ != "" {
		pts = append(pts, data.Point{Type: data.PointTypeNodeType, Text: typ, Origin: origin})
	}
	return client.SendEdgePoints(g.inst.Nc, node, parent, pts, true)
}

func (g *rig) points(node string, pts ...data.Point) error {
	for i := range pts {
		if pts[i].Time.IsZero() {
			pts[i].Time = g.tick()
		}
	}
	return client.SendNodePoints(g.inst.Nc, node, pts, true)
}

// settle: run to quiescence, let two full rescan periods pass, run to quiescence.
func (g *rig) settle() {
	g.s.quiesce()
	g.s.run(61 * time.Second)
	g.s.run(61 * time.Second)
	g.s.quiesce()
}

// stopAll stops manager and store; returns what did not return.
func (g *rig) stopAll() (problems []string) {
	g.s.choose = false
	if g.mgr != nil {
		g.mgr.Stop(nil)
		g.s.run(6 * time.Second) // the manager's own shutdown guard is 5 s
		select {
		case <-g.mgrDone:
		default:
			problems = append(problems, "Manager.Run did not return within 6 s of Stop")
		}
		if rk := g.reg.runningKeys(); len(rk) > 0 {
			problems = append(problems, fmt.Sprintf("clients still running after Manager.Stop: %v", rk))
		}
		g.mgrNc.Close()
	}
	if g.inst != nil {
		_ = g.s.do(func() error { g.inst.Close(); return nil }, false)
	}
	nats.RemoveBus(g.bus.Name)
	return problems
}

func ptsString(ps data.Points) string {
	var s []string
	for _, p := range ps {
		s = append(s, fmt.Sprintf("%s/%s=%v,%q@%d o=%q", p.Type, p.Key, p.Value, p.Text, p.Time.UnixNano(), p.Origin))
	}
	return strings.Join(s, "; ")
}
