//go:build go1.25

package tb

import (
	"fmt"
	"sort"
	"strings"
	"testing"
	"testing/synctest"
	"time"
	"verif/h/vsel"

	"github.com/simpleiot/simpleiot/client"
	"github.com/simpleiot/simpleiot/data"
	"verif/h/mc"
)

// C07: exactly one running client per live configured node.
// Seam: real store + real client.NewManager[VNode] with an instrumented
// client type, async in-process bus, one synctest bubble per execution.

// reference graph of the history
type c07Model struct {
	root  string
	typ   map[string]string  // node -> type
	edges map[[2]string]bool // (parent, child) -> deleted
}

// expected placements: vNode children (live edge) of the root and of every
// group / vParent reachable from the root through live edges.
func (m *c07Model) expected() []string {
	var out []string
	seen := map[string]bool{}
	var walk func(p string)
	walk = func(p string) {
		if seen[p] {
			return
		}
		seen[p] = true
		for e, del := range m.edges {
			if e[0] != p || del {
				continue
			}
			switch m.typ[e[1]] {
			case "vNode":
				out = append(out, p+"-"+e[1])
			case "group", "vParent":
				walk(e[1])
			}
		}
	}
	walk(m.root)
	sort.Strings(out)
	return out
}

type c07Op struct {
	name string
	do   func(g *rig, m *c07Model) (applicable bool, err error)
}

func c07Ops() []c07Op {
	mkEdge := func(child, parent, typ string, del bool) c07Op {
		verb := "create/undelete"
		if del {
			verb = "delete"
		}
		return c07Op{fmt.Sprintf("%s %s under %s", verb, child, parent), func(g *rig, m *c07Model) (bool, error) {
			p := parent
			if p == "ROOT" {
				p = m.root
			}
			cur, exists := m.edges[[2]string{p, child}]
			if del && (!exists || cur) {
				return false, nil
			}
			if !del && exists && !cur {
				return false, nil
			}
			if _, ok := m.edges[[2]string{m.root, parent}]; parent != "ROOT" && !ok {
				return false, nil // parent node does not exist yet
			}
			t := ""
			if !exists {
				t = typ
				if typ == "vNode" || typ == "vKid" {
					// a new node gets its points first, as SendNode does
					if err := g.points(child, data.Point{Type: "description", Text: "desc " + child, Origin: "creator"}, data.Point{Type: "value", Value: 1, Origin: "creator"}); err != nil {
						return true, err
					}
				}
			}
			if err := g.edge(child, p, t, del, "creator"); err != nil {
				return true, err
			}
			m.edges[[2]string{p, child}] = del
			m.typ[child] = typ
			return true, nil
		}}
	}
	return []c07Op{
		mkEdge("N1", "ROOT", "vNode", false),
		mkEdge("N1", "ROOT", "vNode", true),
		mkEdge("G", "ROOT", "group", false),
		mkEdge("G", "ROOT", "group", true),
		mkEdge("N1", "G", "vNode", false), // create under a group / mirror under a second parent
		mkEdge("N1", "G", "vNode", true),
		mkEdge("P", "ROOT", "vParent", false),
		mkEdge("N2", "P", "vNode", false),
		mkEdge("N2", "P", "vNode", true),
		{"add child K1 to N1", func(g *rig, m *c07Model) (bool, error) {
			if _, ok := m.typ["N1"]; !ok {
				return false, nil
			}
			cur, exists := m.edges[[2]string{"N1", "K1"}]
			if exists && !cur {
				return false, nil
			}
			t := ""
			if !exists {
				t = "vKid"
				if err := g.points("K1", data.Point{Type: "description", Text: "kid", Origin: "creator"}); err != nil {
					return true, err
				}
			}
			if err := g.edge("K1", "N1", t, false, "creator"); err != nil {
				return true, err
			}
			m.edges[[2]string{"N1", "K1"}] = false
			m.typ["K1"] = "vKid"
			return true, nil
		}},
		{"remove child K1 from N1", func(g *rig, m *c07Model) (bool, error) {
			cur, exists := m.edges[[2]string{"N1", "K1"}]
			if !exists || cur {
				return false, nil
			}
			if err := g.edge("K1", "N1", "", true, "creator"); err != nil {
				return true, err
			}
			m.edges[[2]string{"N1", "K1"}] = true
			return true, nil
		}},
		{"point update on N1", func(g *rig, m *c07Model) (bool, error) {
			if _, ok := m.typ["N1"]; !ok {
				return false, nil
			}
			return true, g.points("N1", data.Point{Type: "value", Value: float64(time.Now().Unix() % 1000), Origin: "other"})
		}},
		{"an unrelated node is created under the root", func(g *rig, m *c07Model) (bool, error) {
			id := fmt.Sprintf("X%d", len(m.typ))
			if err := g.points(id, data.Point{Type: "description", Text: id, Origin: "creator"}); err != nil {
				return true, err
			}
			if err := g.edge(id, m.root, "other", false, "creator"); err != nil {
				return true, err
			}
			m.edges[[2]string{m.root, id}] = false
			m.typ[id] = "other"
			return true, nil
		}},
		{"a minute passes", func(g *rig, m *c07Model) (bool, error) {
			return true, nil // handled by the scheduler (virtual time advances in 10 ms steps)
		}},
		{"N1 itself creates a child K2 (edge points role + node type, no tombstone point, origin N1)", func(g *rig, m *c07Model) (bool, error) {
			// what a device client does for the inputs it discovers (client.SendNode with its own id as origin: the
			// edge batch of a brand-new child with an edge-point field carries no tombstone point)
			if _, ok := m.typ["N1"]; !ok {
				return false, nil
			}
			if _, exists := m.edges[[2]string{"N1", "K2"}]; exists {
				return false, nil
			}
			if err := g.points("K2", data.Point{Type: "description", Text: "kid2", Origin: "N1"}); err != nil {
				return true, err
			}
			pts := data.Points{{Type: "role", Text: "own", Time: g.tick(), Origin: "N1"}, {Type: data.PointTypeNodeType, Text: "vKid", Origin: "N1"}}
			if err := client.SendEdgePoints(g.inst.Nc, "K2", "N1", pts, true); err != nil {
				return true, err
			}
			m.edges[[2]string{"N1", "K2"}] = false
			m.typ["K2"] = "vKid"
			return true, nil
		}},
		{"add child K3 to N1 with points stamped one hour in the past (imported / back-filled data)", func(g *rig, m *c07Model) (bool, error) {
			if _, ok := m.typ["N1"]; !ok {
				return false, nil
			}
			if _, exists := m.edges[[2]string{"N1", "K3"}]; exists {
				return false, nil
			}
			old := time.Now().Add(-time.Hour)
			if err := client.SendNodePoints(g.inst.Nc, "K3", data.Points{{Type: "description", Text: "kid3", Origin: "creator", Time: old}}, true); err != nil {
				return true, err
			}
			if err := client.SendEdgePoints(g.inst.Nc, "K3", "N1", data.Points{{Type: data.PointTypeTombstone, Value: 0, Time: old.Add(time.Second), Origin: "creator"}, {Type: data.PointTypeNodeType, Text: "vKid", Origin: "creator", Time: old.Add(time.Second)}}, true); err != nil {
				return true, err
			}
			m.edges[[2]string{"N1", "K3"}] = false
			m.typ["K3"] = "vKid"
			return true, nil
		}},
	}
}

// c07Body: fixture = start from {group G, vNode N1 under G, custom parent P} instead of the empty tree;
// subset = indices of the operations offered (nil = all); slow = clients take 3 s to stop.
func c07Body(t *testing.T, depth, devBound int, fixture bool, subset []int, slow bool) mc.Body {
	all := c07Ops()
	ops := all
	if subset != nil {
		ops = nil
		for _, i := range subset {
			ops = append(ops, all[i])
		}
	}
	return func(x *mc.X) mc.Outcome {
		var out mc.Outcome
		leak := bubble(t, func() {
			// the manager's select: with several ready cases the explorer decides (first in source order by default)
			vsel.SetHook(func(ready []int) int {
				return x.Deviate(len(ready), fmt.Sprintf("manager select: ready cases %v", ready))
			})
			defer vsel.SetHook(nil)
			g, err := newRig(x, devBound > 0)
			if err != nil {
				out = mc.Outcome{Violation: "HARNESS: " + err.Error(), Key: "harness"}
				return
			}
			m := &c07Model{root: g.inst.RootID, typ: map[string]string{}, edges: map[[2]string]bool{}}
			if slow {
				g.reg.stopDelay = 3 * time.Second
			}
			if fixture {
				err := g.s.do(func() error {
					for _, i := range []int{2, 4, 6} { // create G, N1 under G, P
						if _, e := all[i].do(g, m); e != nil {
							return e
						}
					}
					return nil
				}, false)
				if err != nil {
					out = mc.Outcome{Violation: "HARNESS: fixture: " + err.Error(), Key: "harness"}
					return
				}
				x.Logf("fixture: G, N1 under G, P")
			}
			stopped := false
			defer func() {
				if !stopped {
					g.stopAll()
				}
			}()
			// when does the manager start: before the history (default) or after the first operation
			lateStart := x.Deviate(2, "manager starts after the first operation") == 1
			if !lateStart {
				g.startManager()
				g.s.quiesce()
			}
			fail := func(key, msg string) {
				if out.Violation == "" {
					out = mc.Outcome{Violation: msg + "\nhistory: " + strings.Join(x.History(), "; "), Key: key}
				}
			}
			for d := 0; d < depth; d++ {
				op := ops[x.Choose(len(ops), "op")]
				// default: run to quiescence before the next operation; deviation: go on as soon as the write is acknowledged
				early := x.Deviate(2, "next operation without waiting for quiescence") == 1
				var ok bool
				var err error
				if op.name == "a minute passes" {
					ok = true
					g.s.run(61 * time.Second)
				} else {
					err = g.s.do(func() error {
						var e error
						ok, e = op.do(g, m)
						return e
					}, early)
				}
				if !ok {
					out = mc.Outcome{Trivial: true, Obs: "inapplicable"}
					return
				}
				if err != nil {
					fail("legal-write-refused", "operation "+op.name+" refused: "+err.Error())
					return
				}
				if early {
					x.Logf("%s (next operation issued at once)", op.name)
				} else {
					g.s.quiesce()
					x.Logf("%s", op.name)
				}
				if d == 0 && lateStart {
					g.startManager()
					if !early {
						g.s.quiesce()
					}
				}
			}
			g.settle()
			if g.s.stuck != "" {
				fail("no-progress", g.s.stuck)
			}
			// ---- oracles at quiescence
			for k, n := range g.reg.maxRun {
				if n > 1 {
					fail("two-clients-one-placement", fmt.Sprintf("placement %s had %d clients running at the same time", k, n))
				}
			}
			want := m.expected()
			got := g.reg.runningKeys()
			if strings.Join(got, ",") != strings.Join(want, ",") {
				k := "client-missing-for-live-node"
				if len(got) > len(want) {
					k = "client-running-for-dead-node"
				}
				fail(k, fmt.Sprintf("running clients %v, live configured nodes %v", got, want))
			}
			// each running client holds the node's current points and children
			for _, key := range got {
				c := g.reg.clients[key]
				parent, id := strings.SplitN(key, "-", 2)[0], strings.SplitN(key, "-", 2)[1]
				var nodes, kids []data.NodeEdge
				err := g.s.do(func() error {
					var e error
					nodes, e = client.GetNodes(g.inst.Nc, parent, id, "", false)
					kids, _ = client.GetNodes(g.inst.Nc, id, "all", "", false)
					return e
				}, false)
				if err != nil || len(nodes) != 1 {
					continue
				}
				nec := data.NodeEdgeChildren{NodeEdge: nodes[0]}
				for _, k := range kids {
					nec.Children = append(nec.Children, data.NodeEdgeChildren{NodeEdge: k})
				}
				var cur VNode
				_ = data.Decode(nec, &cur)
				c.mu.Lock()
				have := c.cfg.canon()
				c.mu.Unlock()
				if have != cur.canon() {
					fail("client-config-stale", fmt.Sprintf("client %s holds {%s}, the store holds {%s}", key, have, cur.canon()))
				}
			}
			// differential: a fresh manager on the same store starts exactly the same set
			reg2 := newRegistry("fresh")
			nc2 := g.inst.Bus.Connect()
			m2 := client.NewManager(nc2, reg2.construct, []string{"vParent"})
			done2 := make(chan error, 1)
			go func() { done2 <- m2.Run() }()
			g.s.choose = false
			g.s.quiesce()
			if fresh := reg2.runningKeys(); strings.Join(fresh, ",") != strings.Join(got, ",") {
				fail("differs-from-fresh-manager", fmt.Sprintf("manager that lived through the history runs %v, a fresh manager on the same store runs %v (reference: %v)", got, fresh, want))
			}
			m2.Stop(nil)
			g.s.run(6 * time.Second)
			nc2.Close()
			// stopping the manager stops every client and returns
			stopped = true
			for _, p := range g.stopAll() {
				fail("stop-does-not-finish", p)
			}
			if out.Violation == "" {
				out.Obs = strings.Join(want, ",") + "|" + fmt.Sprint(len(g.reg.events))
			}
		})
		if leak != "" && out.Violation == "" && !out.Trivial {
			// goroutines parked after everything was stopped: recorded, not a violation by itself
			out.Obs += "|leak"
		}
		return out
	}
}

// c07StopBody: Manager.Stop at every point. The history runs with quiescence between operations,
// except that the last operation returns as soon as it is acknowledged; from then on every
// scheduler step offers "stop now" next to the pending deliveries (one deviation), and the
// remaining deliveries are granted while the manager shuts down.
// delay: the last operation is issued k scheduler steps after the one before it (k = 0 by default, any other k is
// one deviation), and deliveries are not reordered.
func c07StopBody(t *testing.T, depth int, fixture bool, subset []int, slow bool, delay bool) mc.Body {
	all := c07Ops()
	var ops []c07Op
	for _, i := range subset {
		ops = append(ops, all[i])
	}
	return func(x *mc.X) mc.Outcome {
		var out mc.Outcome
		leak := bubble(t, func() {
			g, err := newRig(x, false)
			if err != nil {
				out = mc.Outcome{Violation: "HARNESS: " + err.Error(), Key: "harness"}
				return
			}
			m := &c07Model{root: g.inst.RootID, typ: map[string]string{}, edges: map[[2]string]bool{}}
			if slow {
				g.reg.stopDelay = 3 * time.Second
			}
			stopped := false
			defer func() {
				if !stopped {
					g.stopAll()
				}
			}()
			if fixture {
				err := g.s.do(func() error {
					for _, i := range []int{2, 4, 6} { // create G, N1 under G, P
						if _, e := all[i].do(g, m); e != nil {
							return e
						}
					}
					return nil
				}, false)
				if err != nil {
					out = mc.Outcome{Violation: "HARNESS: fixture: " + err.Error(), Key: "harness"}
					return
				}
				x.Logf("fixture: G, N1 under G, P")
			}
			g.startManager()
			g.s.quiesce()
			for d := 0; d < depth; d++ {
				op := ops[x.Choose(len(ops), "op")]
				last := d >= depth-2 // the last two operations follow each other without waiting for quiescence
				if delay && d == depth-1 && d > 0 {
					g.s.fifo = true // strictly oldest first from here on: the operation and the manager's scan advance in turns
					k := x.Deviate(41, "scheduler steps before the last operation")
					for i := 0; i < k; i++ {
						if granted, _ := g.s.step(0, "deliver"); !granted {
							out = mc.Outcome{Trivial: true, Obs: "quiescent before the delay elapsed"}
							return
						}
					}
					if k > 0 {
						x.Logf("(%d scheduler steps)", k)
					}
				}
				var ok bool
				f := func() error {
					var e error
					ok, e = op.do(g, m)
					return e
				}
				var err error
				if last {
					err = g.s.doAck(f)
				} else {
					err = g.s.do(f, false)
				}
				if !ok {
					out = mc.Outcome{Trivial: true, Obs: "inapplicable"}
					return
				}
				if err != nil {
					out = mc.Outcome{Violation: "operation " + op.name + " refused: " + err.Error(), Key: "legal-write-refused"}
					return
				}
				x.Logf("%s", op.name)
				if !last {
					g.s.quiesce()
				}
			}
			// deliveries continue (oldest first, or one reordering) until the explorer picks "stop now";
			// from here on a select of the manager that finds several ready cases takes the first in
			// source order, or (one deviation) another one
			vsel.SetHook(func(ready []int) int {
				return x.Deviate(len(ready), fmt.Sprintf("manager select: ready cases %v", ready))
			})
			defer vsel.SetHook(nil)
			g.s.choose = !delay
			n := 0
			for idle := 0; n < 10000 && idle < 30; n++ {
				var granted bool
				extra := -1
				if delay {
					synctest.Wait()
					if x.Deviate(2, "stop now") == 1 {
						break
					}
					granted, _ = g.s.step(0, "deliver")
				} else {
					granted, extra = g.s.step(1, "stop now")
				}
				if extra >= 0 {
					break
				}
				if !granted {
					// nothing deliverable: polling loops and timers need (virtual) time
					idle++
					time.Sleep(10 * time.Millisecond)
					continue
				}
				idle = 0
			}
			x.Logf("Manager.Stop after %d further scheduler steps", n)
			stopped = true
			probs := g.stopAll()
			for k, c := range g.reg.maxRun {
				if c > 1 {
					probs = append(probs, fmt.Sprintf("placement %s had %d clients running at the same time", k, c))
				}
			}
			if len(probs) > 0 {
				out = mc.Outcome{Violation: strings.Join(probs, "; ") + "\nhistory: " + strings.Join(x.History(), "; "), Key: "stop-does-not-finish"}
				return
			}
			out.Obs = fmt.Sprint(n, "|", len(g.reg.events))
		})
		if leak != "" && out.Violation == "" && !out.Trivial {
			out.Obs += "|leak"
		}
		return out
	}
}

func TestC07(t *testing.T) {
	runCheck(t, "C07", "model_checking", func(r *mc.Report, t *testing.T) {
		depth, dev := 3, 1
		if thorough() {
			depth, dev = 4, 2
		}
		// second part: start from a populated tree, clients that need 3 s to stop, group churn and rescan triggers
		churn := []int{2, 3, 4, 5, 11, 12, 13, 0}
		cd := 4
		if thorough() {
			cd = 5
		}
		defer r.Explore(mc.Config{Name: fmt.Sprintf("group-churn-slow-clients-d%d", cd), Serial: true, SplitDepth: 3, DevBound: 0,
			Rule: fmt.Sprintf("start state {group G, vNode N1 under G, custom parent P}, instrumented clients that keep running for 3 s after Stop; all histories of %d operations over 8 (delete/undelete G, delete/undelete N1 under G, point update, unrelated node created = rescan trigger, a minute passes, N1 mirrored under the root); same oracles", cd)},
			c07Body(t, cd, 0, true, churn, true))
		// third part: Manager.Stop at every point of the delivery schedule that follows the last operation
		stopOps := []int{0, 1, 7, 3, 2, 5, 4, 9, 11, 12}
		sd := 2
		if thorough() {
			sd = 3
		}
		defer r.Explore(mc.Config{Name: fmt.Sprintf("stop-at-every-point-d%d", sd), Serial: true, SplitDepth: 2, DevBound: 1,
			Rule: fmt.Sprintf("start state {group G, vNode N1 under G, custom parent P}, clients that keep running for 3 s after Stop; all histories of %d operations over 10 (create / delete N1 under the root, create N2 under P, delete / undelete G, delete / undelete N1 under G, add a child, point update, unrelated node created); the last two operations return as soon as they are acknowledged and Manager.Stop is issued before each of the scheduler steps that follow (one deviation: the stop point, one reordering of two deliveries, or another ready case in the manager's select, which is rewritten by vselgen so that the explorer and not the Go runtime picks among ready cases); the remaining deliveries are granted during the shutdown; oracle: Run returns within 6 s, no client is left running, never two clients per placement", sd)},
			c07StopBody(t, sd, true, stopOps, true, false))
		// fourth part: the same with the second operation issued at every point of the activity the first one caused
		lateOps := []int{7, 0, 12, 9}
		defer r.Explore(mc.Config{Name: "stop-with-late-operation-d2", Serial: true, SplitDepth: 3, DevBound: 2,
			Rule: "start state as before; all pairs of operations over 4 (create N2 under P, create N1 under the root, unrelated node created, add a child to N1), each returning as soon as it is acknowledged; the second is issued k scheduler steps after the first (k = 0..40: one deviation), Manager.Stop before any later step (one deviation), another ready case in the manager's select (one deviation); at most 2 deviations per execution; deliveries strictly oldest first (so that the operation and the scan it races with advance in turns); same oracle"},
			c07StopBody(t, 2, true, lateOps, true, true))
		kids := []int{9, 10, 11, 5, 4, 13, 14}
		defer r.Explore(mc.Config{Name: "child-churn-d3", Serial: true, SplitDepth: 2, DevBound: 0,
			Rule: "start state {group G, vNode N1 under G, custom parent P}; all histories of 3 operations over 7 (add / remove / re-add a child of N1 — the re-add is a bare tombstone=0 edge point —, N1 creating a child itself with origin N1 and no tombstone point in the edge batch, point update, delete / undelete N1, a minute passes); same oracles (the client's children must be the node's live children)"},
			c07Body(t, 3, 0, true, kids, false))
		r.Explore(mc.Config{Name: fmt.Sprintf("histories-d%d-dev%d", depth, dev), Serial: true, SplitDepth: 3, DevBound: dev, SelfCheckEvery: 97,
			Rule: fmt.Sprintf("all histories of %d operations over 15 (create/delete/undelete a vNode under the root, under a group, under a custom parent type; mirror it under a second parent; delete/undelete the containing group; add/remove a child; a child created by the client's node itself; point update; a minute passes), each operation followed by a run to quiescence; up to %d timing deviations per execution (manager started after the first operation; next operation issued without waiting for quiescence); then two rescan periods, and the oracles: never two clients per placement, running set = reference set = set started by a fresh manager, client config = store content, Stop returns", depth, dev)},
			c07Body(t, depth, dev, false, nil, false))
		r.Assume("message delivery inside one step follows the Go scheduler (GOMAXPROCS=1 per shard); timing deviations are enumerated at operation granularity, not per message")
		r.Assume("time is virtual (testing/synctest): timeouts fire only when nothing else can run")
	})
}

func init() {
	bodies["C07/histories-d3-dev1"] = func(t *testing.T) mc.Body { return c07Body(t, 3, 1, false, nil, false) }
	bodies["C07/histories-d4-dev2"] = func(t *testing.T) mc.Body { return c07Body(t, 4, 2, false, nil, false) }
	churn := []int{2, 3, 4, 5, 11, 12, 13, 0}
	bodies["C07/child-churn-d3"] = func(t *testing.T) mc.Body { return c07Body(t, 3, 0, true, []int{9, 10, 11, 5, 4, 13, 14}, false) }
	bodies["C07/group-churn-slow-clients-d4"] = func(t *testing.T) mc.Body { return c07Body(t, 4, 0, true, churn, true) }
	stopOps := []int{0, 1, 7, 3, 2, 5, 4, 9, 11, 12}
	bodies["C07/stop-at-every-point-d2"] = func(t *testing.T) mc.Body { return c07StopBody(t, 2, true, stopOps, true, false) }
	bodies["C07/stop-at-every-point-d3"] = func(t *testing.T) mc.Body { return c07StopBody(t, 3, true, stopOps, true, false) }
	bodies["C07/stop-with-late-operation-d2"] = func(t *testing.T) mc.Body { return c07StopBody(t, 2, true, []int{7, 0, 12, 9}, true, true) }
	bodies["C07/group-churn-slow-clients-d5"] = func(t *testing.T) mc.Body { return c07Body(t, 5, 0, true, churn, true) }
}
