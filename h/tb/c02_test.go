//go:build go1.25

package tb

import (
	"fmt"
	"os"
	"runtime"
	"sort"
	"strings"
	"testing"
	"time"
	"verif/h/vsel"

	"github.com/nats-io/nats.go"
	"github.com/simpleiot/simpleiot/client"
	"github.com/simpleiot/simpleiot/data"
	"verif/h/mc"
	"verif/h/sh"
)

// C02: linked instances converge on the shared device tree.
// Two real stores (downstream D, upstream U) on two controlled buses, the real
// client.NewSyncClient running against both, one bubble per execution.

type c02Rig struct {
	s      *sched
	d, u   *sh.Inst
	sc     client.Client
	scDone chan error
	clock  int64
	devID  string
	uAway  bool // the upstream store is already stopped
}

var c02Seq int

func newC02Rig(x *mc.X) (*c02Rig, error) {
	c02Seq++
	urlD, urlU := fmt.Sprintf("nats://d%d:4222", c02Seq), fmt.Sprintf("nats://u%d:4222", c02Seq)
	g := &c02Rig{scDone: make(chan error, 1), clock: time.Now().UnixNano(), devID: "devD"}
	bd, bu := nats.NewBus(urlD, nats.Controlled), nats.NewBus(urlU, nats.Controlled)
	g.s = &sched{x: x, buses: []*nats.Bus{bd, bu}}
	err := g.s.do(func() error {
		var err error
		if g.d, err = sh.New(sh.Opts{URL: urlD, Mode: nats.Controlled, RootID: "devD"}); err != nil {
			return err
		}
		if g.u, err = sh.New(sh.Opts{URL: urlU, Mode: nats.Controlled, RootID: "cloudU"}); err != nil {
			return err
		}
		// the sync node and one ordinary child exist before the link comes up
		if err := client.SendNodeType(g.d.Nc, client.Sync{ID: "sync1", Parent: "devD", Description: "up", URI: urlU, Period: 1}, "creator"); err != nil {
			return err
		}
		if err := client.SendNode(g.d.Nc, data.NodeEdge{ID: "A", Parent: "devD", Type: "vtest", Points: data.Points{{Type: "description", Text: "node A", Time: g.tick()}, {Type: "value", Value: 1, Time: g.tick()}}}, "creator"); err != nil {
			return err
		}
		// B is placed under the device and mirrored under A (two parents inside the device tree)
		if err := client.SendNode(g.d.Nc, data.NodeEdge{ID: "B", Parent: "devD", Type: "vtest", Points: data.Points{{Type: "description", Text: "node B", Time: g.tick()}}}, "creator"); err != nil {
			return err
		}
		if err := client.SendEdgePoints(g.d.Nc, "B", "A", data.Points{{Type: data.PointTypeTombstone, Time: g.tick()}, {Type: data.PointTypeNodeType, Text: "vtest"}}, true); err != nil {
			return err
		}
		// L: a plain leaf below the device (one placement, no children)
		return client.SendNode(g.d.Nc, data.NodeEdge{ID: "L", Parent: "devD", Type: "vtest", Points: data.Points{{Type: "description", Text: "leaf L", Time: g.tick()}}}, "creator")
	}, false)
	if err != nil {
		return g, err
	}
	g.sc = client.NewSyncClient(g.d.Bus.Connect(), client.Sync{ID: "sync1", Parent: "devD", Description: "up", URI: urlU, Period: 1})
	go func() { g.scDone <- g.sc.Run() }()
	return g, nil
}

func (g *c02Rig) tick() time.Time {
	n := time.Now().UnixNano()
	if n <= g.clock {
		n = g.clock + 1
	}
	g.clock = n
	return time.Unix(0, n)
}

func (g *c02Rig) stop() {
	g.s.choose = false
	g.sc.Stop(nil)
	g.s.run(2 * time.Second)
	_ = g.s.do(func() error {
		g.d.Close()
		if !g.uAway {
			g.u.Close()
		}
		return nil
	}, false)
}

// subtree reads the device tree below devID as one canonical string per placement.
func c02Subtree(g *c02Rig, inst *sh.Inst, topParent string) (map[string]string, error) {
	out := map[string]string{}
	var walk func(parent, id string, top bool) error
	walk = func(parent, id string, top bool) error {
		ns, err := client.GetNodes(inst.Nc, parent, id, "", true)
		if err != nil {
			return err
		}
		for _, n := range ns {
			key := n.Parent + ">" + n.ID
			if top {
				key = "TOP>" + n.ID
			}
			if _, dup := out[key]; dup {
				continue
			}
			ep := c02Canon(n.EdgePoints)
			if top {
				ep = "(not compared)"
			}
			out[key] = fmt.Sprintf("[%s] points{%s} edge{%s}", n.Type, c02Canon(n.Points), ep)
			kids, err := client.GetNodes(inst.Nc, n.ID, "all", "", true)
			if err != nil {
				return err
			}
			for _, k := range kids {
				if err := walk(n.ID, k.ID, false); err != nil {
					return err
				}
			}
		}
		return nil
	}
	err := walk(topParent, g.devID, true)
	return out, err
}

type c02Op struct {
	name     string
	tomb     bool // writes a tombstone (delete / undelete)
	do       func(g *c02Rig, st *c02State) (bool, error)
	schedule func(g *c02Rig)
}

type c02State struct {
	disabled bool
	linkDown bool
	upAway   bool            // the upstream store is not running (its bus is reachable)
	aDeleted map[string]bool // side -> believes A deleted (for applicability only)
	cExists  bool
	eExists  bool
	newest   map[string]data.Point // "node/type/key" and "edge:parent>node/type" -> newest accepted write
}

func (st *c02State) accept(key string, p data.Point) {
	if cur, ok := st.newest[key]; !ok || p.Time.After(cur.Time) {
		st.newest[key] = p
	}
}

// c02Forwarding: the sync client holds its subscription at the upstream (made the moment it regards itself
// as connected).
func c02Forwarding(g *c02Rig) bool {
	noEcho := map[string]bool{}
	for _, nc := range g.u.Bus.Conns() {
		if nc.Opts.NoEcho && !nc.IsClosed() {
			noEcho[fmt.Sprintf("c%d:", nc.ID())] = true
		}
	}
	for _, sub := range g.u.Bus.Subscriptions() {
		if i := strings.Index(sub, ":"); i > 0 && noEcho[sub[:i+1]] && strings.HasPrefix(sub[i+1:], "up.") {
			return true
		}
	}
	return false
}

func c02Ops() []c02Op {
	side := func(g *c02Rig, s string) *sh.Inst {
		if s == "D" {
			return g.d
		}
		return g.u
	}
	var ops []c02Op
	for _, s := range []string{"D", "U"} {
		s := s
		ops = append(ops, c02Op{name: "point on A at " + s, do: func(g *c02Rig, st *c02State) (bool, error) {
			p := data.Point{Type: "value", Value: float64(g.clock % 100000), Time: g.tick(), Origin: "user" + s}
			st.accept("A/value/0", p)
			return true, client.SendNodePoints(side(g, s).Nc, "A", data.Points{p}, true)
		}})
	}
	for _, s := range []string{"D", "U"} {
		s := s
		// a second sample of the identity 300 microseconds after the newest one written so far (two sources
		// that sample the same signal; either side may hold the older one)
		ops = append(ops, c02Op{name: "point on A 300 us after the newest one, at " + s, do: func(g *c02Rig, st *c02State) (bool, error) {
			last, ok := st.newest["A/value/0"]
			if !ok {
				return false, nil
			}
			t := last.Time.Add(300 * time.Microsecond)
			if n := t.UnixNano(); n > g.clock {
				g.clock = n
			}
			p := data.Point{Type: "value", Value: float64(g.clock % 99991), Time: t, Origin: "user" + s}
			st.accept("A/value/0", p)
			return true, client.SendNodePoints(side(g, s).Nc, "A", data.Points{p}, true)
		}})
	}
	for _, s := range []string{"D", "U"} {
		s := s
		// the same identity written as a removed entry (point-level tombstone count 1); a later plain write revives it
		ops = append(ops, c02Op{name: "point on A marked removed at " + s, do: func(g *c02Rig, st *c02State) (bool, error) {
			p := data.Point{Type: "value", Tombstone: 1, Time: g.tick(), Origin: "user" + s}
			st.accept("A/value/0", p)
			return true, client.SendNodePoints(side(g, s).Nc, "A", data.Points{p}, true)
		}})
	}
	for _, s := range []string{"D", "U"} {
		s := s
		ops = append(ops, c02Op{name: "new point identity on A at " + s, do: func(g *c02Rig, st *c02State) (bool, error) {
			// a new KEY of a type the node already has (value[""] exists on both sides)
			p := data.Point{Type: "value", Key: "k" + s, Text: "only written at " + s, Value: float64(g.clock % 1000), Time: g.tick(), Origin: "user" + s}
			st.accept("A/value/k"+s, p)
			return true, client.SendNodePoints(side(g, s).Nc, "A", data.Points{p}, true)
		}})
	}
	for _, s := range []string{"D", "U"} {
		s := s
		ops = append(ops, c02Op{name: "create C at " + s, do: func(g *c02Rig, st *c02State) (bool, error) {
			if st.cExists {
				return false, nil
			}
			st.cExists = true
			p := data.Point{Type: "description", Text: "node C made at " + s, Time: g.tick()}
			st.accept("C/description/0", p)
			// the new node also holds a deleted array entry (point-level tombstone) and a point with a data payload:
			// every field has to arrive on the other side
			gone := data.Point{Type: "tag", Key: "1", Text: "removed entry", Tombstone: 1, Time: g.tick()}
			blob := data.Point{Type: "blob", Data: []byte{0, 1, 2, 0xff}, Time: g.tick()}
			st.accept("C/tag/1", gone)
			st.accept("C/blob/0", blob)
			return true, client.SendNode(side(g, s).Nc, data.NodeEdge{ID: "C", Parent: "devD", Type: "vtest", Points: data.Points{p, gone, blob}}, "user"+s)
		}})
	}
	for _, s := range []string{"D", "U"} {
		s := s
		// a child below a node that has no children yet (L is a leaf on both sides)
		ops = append(ops, c02Op{name: "create E below the leaf L at " + s, do: func(g *c02Rig, st *c02State) (bool, error) {
			if st.eExists {
				return false, nil
			}
			st.eExists = true
			p := data.Point{Type: "description", Text: "node E made at " + s, Time: g.tick()}
			st.accept("E/description/0", p)
			return true, client.SendNode(side(g, s).Nc, data.NodeEdge{ID: "E", Parent: "L", Type: "vtest", Points: data.Points{p}}, "user"+s)
		}})
		// B is placed twice inside the device tree (below the device and below A): a node point on it
		ops = append(ops, c02Op{name: "point on the twice-placed node B at " + s, do: func(g *c02Rig, st *c02State) (bool, error) {
			p := data.Point{Type: "value", Value: float64(g.clock % 100000), Time: g.tick(), Origin: "user" + s}
			st.accept("B/value/0", p)
			return true, client.SendNodePoints(side(g, s).Nc, "B", data.Points{p}, true)
		}})
	}
	for _, del := range []bool{true, false} {
		for _, s := range []string{"D", "U"} {
			s, del := s, del
			verb := "undelete"
			if del {
				verb = "delete"
			}
			ops = append(ops, c02Op{name: verb + " A at " + s, tomb: true, do: func(g *c02Rig, st *c02State) (bool, error) {
				if st.aDeleted["any"] == del {
					return false, nil
				}
				st.aDeleted["any"] = del
				v := 0.0
				if del {
					v = 1
				}
				p := data.Point{Type: data.PointTypeTombstone, Value: v, Time: g.tick(), Origin: "user" + s}
				st.accept("edge:devD>A/tombstone", p)
				return true, client.SendEdgePoints(side(g, s).Nc, "A", "devD", data.Points{p}, true)
			}})
		}
	}
	for _, s := range []string{"D", "U"} {
		s := s
		ops = append(ops, c02Op{name: "edge point on A at " + s, do: func(g *c02Rig, st *c02State) (bool, error) {
			p := data.Point{Type: "role", Text: "r" + s, Value: float64(g.clock % 1000), Time: g.tick(), Origin: "user" + s}
			st.accept("edge:devD>A/role", p)
			return true, client.SendEdgePoints(side(g, s).Nc, "A", "devD", data.Points{p}, true)
		}})
	}
	for _, s := range []string{"D", "U"} {
		s := s
		ops = append(ops, c02Op{name: "edge point on the mirror placement A>B at " + s, do: func(g *c02Rig, st *c02State) (bool, error) {
			p := data.Point{Type: "role", Text: "m" + s, Value: float64(g.clock % 1000), Time: g.tick(), Origin: "user" + s}
			st.accept("edge:A>B/role", p)
			return true, client.SendEdgePoints(side(g, s).Nc, "B", "A", data.Points{p}, true)
		}})
	}
	for _, dis := range []bool{true, false} {
		dis := dis
		name := "enable sync"
		if dis {
			name = "disable sync (outage)"
		}
		ops = append(ops, c02Op{name: name, do: func(g *c02Rig, st *c02State) (bool, error) {
			if st.disabled == dis {
				return false, nil
			}
			st.disabled = dis
			p := data.Point{Type: data.PointTypeDisabled, Value: data.BoolToFloat(dis), Time: g.tick(), Origin: "ui"}
			if err := client.SendNodePoints(g.d.Nc, "sync1", data.Points{p}, true); err != nil {
				return true, err
			}
			g.sc.Points("sync1", []data.Point{p}) // what the client manager does with a foreign point for the client's node
			return true, nil
		}})
	}
	// the settings form saved again while the link is up (sync stays enabled): the client restarts its connection
	ops = append(ops, c02Op{name: "sync settings re-saved while connected (disabled=0 again)", do: func(g *c02Rig, st *c02State) (bool, error) {
		if st.disabled || st.linkDown || st.upAway {
			return false, nil
		}
		p := data.Point{Type: data.PointTypeDisabled, Value: 0, Time: g.tick(), Origin: "ui"}
		if err := client.SendNodePoints(g.d.Nc, "sync1", data.Points{p}, true); err != nil {
			return true, err
		}
		g.sc.Points("sync1", []data.Point{p})
		return true, nil
	}})
	for _, down := range []bool{true, false} {
		down := down
		name := "link restored"
		if down {
			name = "link lost abruptly (outage)"
		}
		ops = append(ops, c02Op{name: name, do: func(g *c02Rig, st *c02State) (bool, error) {
			if st.linkDown == down || st.disabled {
				return false, nil
			}
			var remote *nats.Conn
			for _, nc := range g.u.Bus.Conns() {
				if nc.Opts.NoEcho { // the sync client's connection to the upstream
					remote = nc
				}
			}
			if remote == nil {
				return false, nil
			}
			st.linkDown = down
			if down {
				remote.LinkDown()
			} else {
				remote.LinkUp()
			}
			return true, nil
		}})
	}
	ops = append(ops, c02Op{name: "upstream restarts", do: func(g *c02Rig, st *c02State) (bool, error) {
		if st.linkDown || st.disabled {
			return false, nil
		}
		// the upstream process goes away (its clients lose their connection), comes back on the same
		// store file, and the clients reconnect
		var remotes []*nats.Conn
		for _, nc := range g.u.Bus.Conns() {
			if nc.Opts.NoEcho {
				remotes = append(remotes, nc)
			}
		}
		for _, nc := range remotes {
			nc.LinkDown()
		}
		file, dir, url := g.u.File, g.u.Dir, g.u.URL
		g.u.Dir = ""
		bus := g.u.Bus
		g.u.Store.Stop(nil)
		g.u.StopKeepBus()
		in2, err := sh.New(sh.Opts{File: file, NoTemplate: true, URL: url, Mode: nats.Controlled, RootID: "cloudU"})
		if err != nil {
			return true, fmt.Errorf("upstream does not come back: %w", err)
		}
		in2.Dir = dir
		_ = bus
		g.u = in2
		for _, nc := range remotes {
			nc.LinkUp()
		}
		return true, nil
	}})
	// the upstream process stops, and its clients reconnect to its bus before its store answers again
	// (a server that is still starting): the catch-up attempt at reconnect finds no responder
	ops = append(ops, c02Op{name: "upstream stops; its clients reconnect before its store is back", do: func(g *c02Rig, st *c02State) (bool, error) {
		if st.linkDown || st.disabled || st.upAway {
			return false, nil
		}
		var remotes []*nats.Conn
		for _, nc := range g.u.Bus.Conns() {
			if nc.Opts.NoEcho {
				remotes = append(remotes, nc)
			}
		}
		for _, nc := range remotes {
			nc.LinkDown()
		}
		g.u.Store.Stop(nil)
		g.u.StopKeepBus()
		st.upAway, g.uAway = true, true
		for _, nc := range remotes {
			nc.LinkUp()
		}
		return true, nil
	}})
	ops = append(ops, c02Op{name: "upstream store is back", do: func(g *c02Rig, st *c02State) (bool, error) {
		if !st.upAway {
			return false, nil
		}
		file, dir, url := g.u.File, g.u.Dir, g.u.URL
		g.u.Dir = ""
		in2, err := sh.New(sh.Opts{File: file, NoTemplate: true, URL: url, Mode: nats.Controlled, RootID: "cloudU"})
		if err != nil {
			return true, fmt.Errorf("upstream does not come back: %w", err)
		}
		in2.Dir = dir
		g.u = in2
		st.upAway, g.uAway = false, false
		return true, nil
	}})
	ops = append(ops, c02Op{name: "a sync period passes"})
	return ops
}

func c02Body(t *testing.T, depth, devBound int) mc.Body {
	ops := c02Ops()
	return func(x *mc.X) mc.Outcome {
		var out mc.Outcome
		bubble(t, func() {
			g, err := newC02Rig(x)
			if err != nil {
				out = mc.Outcome{Violation: "HARNESS: " + err.Error(), Key: "harness"}
				return
			}
			defer g.stop()
			// when the sync client's select finds several ready cases the explorer decides (first in source
			// order by default; any other one is a scheduling deviation), not the Go runtime
			vsel.SetHook(func(ready []int) int {
				return x.Deviate(len(ready), fmt.Sprintf("sync client select: ready cases %v", ready))
			})
			defer vsel.SetHook(nil)
			// initial catch-up
			g.s.run(3500 * time.Millisecond)
			g.s.quiesce()
			st := &c02State{aDeleted: map[string]bool{}, newest: map[string]data.Point{}}
			compare := func(when string) (string, string) {
				var dt, ut map[string]string
				err := g.s.do(func() error {
					var e error
					if dt, e = c02Subtree(g, g.d, "root"); e != nil {
						return e
					}
					ut, e = c02Subtree(g, g.u, "cloudU")
					return e
				}, false)
				if err != nil {
					return "read-failed", when + ": " + err.Error()
				}
				var keys []string
				for k := range dt {
					keys = append(keys, k)
				}
				for k := range ut {
					if _, ok := dt[k]; !ok {
						keys = append(keys, k)
					}
				}
				sort.Strings(keys)
				for _, k := range keys {
					a, aok := dt[k]
					b, bok := ut[k]
					switch {
					case !aok:
						return "node-missing-downstream", fmt.Sprintf("%s: placement %s exists upstream only: %s", when, k, b)
					case !bok:
						return "node-missing-upstream", fmt.Sprintf("%s: placement %s exists downstream only: %s", when, k, a)
					case a != b:
						return "content-differs", fmt.Sprintf("%s: placement %s differs\n downstream: %s\n upstream:   %s", when, k, a, b)
					}
				}
				// agreed values are the newest accepted writes
				for key, p := range st.newest {
					var place, ident string
					if strings.HasPrefix(key, "edge:") {
						f := strings.SplitN(strings.TrimPrefix(key, "edge:"), "/", 2)
						place, ident = f[0], "edge "+f[1]
					} else {
						f := strings.SplitN(key, "/", 2)
						place, ident = "devD>"+f[0], f[1]
						if f[0] == "E" {
							place = "L>E"
						}
					}
					if !strings.Contains(dt[place], c02Canon(data.Points{normalisedPoint(p)})) {
						return "accepted-write-lost", fmt.Sprintf("%s: newest accepted write for %s %s is %s, but both sides hold: %s", when, place, ident, c02Canon(data.Points{normalisedPoint(p)}), dt[place])
					}
				}
				return "", ""
			}
			if k, m := compare("after the initial catch-up"); k != "" {
				out = mc.Outcome{Violation: m, Key: "baseline/" + k}
				return
			}
			g.s.choose = devBound > 0
			outageTomb, outageDeadWrite, outageTwice := "", "", ""
			for d := 0; d < depth; d++ {
				op := ops[x.Choose(len(ops), "op")]
				if op.do == nil {
					g.s.run(1500 * time.Millisecond)
					x.Logf("%s", op.name)
					continue
				}
				if st.upAway && (strings.HasSuffix(op.name, " at U") || op.name == "upstream restarts") {
					out = mc.Outcome{Trivial: true, Obs: "inapplicable"}
					return
				}
				early := devBound > 0 && x.Deviate(2, "next operation before quiescence") == 1
				// is the sync client forwarding at the moment the operation is issued? (after "enable sync" or
				// "link restored" it reconnects 10 ms later; an operation issued before that — a scheduling
				// deviation — still falls into the outage)
				forwarding := c02Forwarding(g)
				var ok bool
				err := g.s.do(func() error {
					var e error
					ok, e = op.do(g, st)
					return e
				}, early)
				if !ok {
					out = mc.Outcome{Trivial: true, Obs: "inapplicable"}
					return
				}
				if err != nil {
					out = mc.Outcome{Violation: "operation " + op.name + " refused: " + err.Error(), Key: "legal-write-refused"}
					return
				}
				outage := st.disabled || st.linkDown || st.upAway || !forwarding
				if op.tomb && outage {
					// the newest tombstone written during an outage is the one that has to win
					outageTomb = op.name
				}
				if !op.tomb && outage && (strings.Contains(op.name, " on A ") || strings.Contains(op.name, "A>B")) && outageDeadWrite == "" {
					// a write on A or below it made while nothing is forwarded: it can only travel by catch-up, and the
					// catch-up walk does not descend into a node that is deleted by the time it runs (known finding)
					outageDeadWrite = op.name
				}
				if outage && strings.Contains(op.name, "twice-placed node B") && outageTwice == "" {
					// B hangs below the device twice (devD>B and devD>A>B): in the XOR hash of the device node its
					// contribution cancels out, so a change on it made while nothing is forwarded is invisible to the
					// catch-up comparison (known finding)
					outageTwice = op.name
				}
				if !early {
					g.s.quiesce()
				}
				x.Logf("%s", op.name)
			}
			// link up through catch-up synchronisation
			byName := func(n string) c02Op {
				for _, o := range ops {
					if o.name == n {
						return o
					}
				}
				panic("no op " + n)
			}
			if st.upAway {
				if err := g.s.do(func() error { _, e := byName("upstream store is back").do(g, st); return e }, false); err != nil {
					out = mc.Outcome{Violation: err.Error(), Key: "upstream-does-not-reopen"}
					return
				}
				x.Logf("upstream store is back (end of history)")
			}
			if st.disabled {
				_ = g.s.do(func() error { _, e := byName("enable sync").do(g, st); return e }, false)
				x.Logf("enable sync (end of history)")
			}
			if st.linkDown {
				_ = g.s.do(func() error { _, e := byName("link restored").do(g, st); return e }, false)
				x.Logf("link restored (end of history)")
			}
			g.s.choose = false
			if os.Getenv("VERIF_C02_DEBUG") != "" {
				for i := 0; i < 5; i++ {
					g.s.run(1100 * time.Millisecond)
					k, m := compare(fmt.Sprint("debug period ", i))
					fmt.Println("DEBUG", i, k, m)
				}
			}
			g.s.run(5500 * time.Millisecond)
			g.s.quiesce()
			if g.s.stuck != "" {
				out = mc.Outcome{Violation: g.s.stuck, Key: "no-progress"}
				return
			}
			k, m := compare("5 sync periods after the history")
			if k != "" {
				// a request that was in flight when the link went down keeps the sync client waiting for its
				// timeout (20 s): give it that time and five more periods before believing a divergence
				g.s.run(21 * time.Second)
				g.s.run(5500 * time.Millisecond)
				g.s.quiesce()
				k, m = compare("5 sync periods and a request timeout (26 s) after the history")
			}
			if k != "" {
				if os.Getenv("VERIF_C02_DEBUG") != "" {
					buf := make([]byte, 1<<20)
					buf = buf[:runtime.Stack(buf, true)]
					for _, g := range strings.Split(string(buf), "\n\n") {
						if strings.Contains(g, "client.(*SyncClient)") || strings.Contains(g, "sync.go") {
							fmt.Println("DEBUG-STACK\n" + g + "\n")
						}
					}
				}
				key := "diverged/" + k
				if outageTomb != "" {
					key = "tombstone-written-during-outage/" + strings.ReplaceAll(outageTomb, " ", "-")
				} else if outageTwice != "" && strings.Contains(m, "B differs") {
					key = "write-on-twice-placed-node-during-outage/at-" + outageTwice[len(outageTwice)-1:]
				} else if outageDeadWrite != "" && st.aDeleted["any"] {
					// one class per side, whatever kind of write it was (point, new identity, edge point, mirror placement)
					key = "write-below-deleted-node-during-outage/at-" + outageDeadWrite[len(outageDeadWrite)-1:]
				}
				out = mc.Outcome{Violation: m + "\nhistory: " + strings.Join(x.History(), "; "), Key: key}
				return
			}
			out.Obs = fmt.Sprint(x.Choices())
		})
		return out
	}
}

// c02Canon: all fields except the origin (the sync client stamps its own id on what it copies).
func c02Canon(ps data.Points) string {
	var s []string
	for _, p := range ps {
		p.Origin = ""
		s = append(s, sh.Canon(p))
	}
	sort.Strings(s)
	return strings.Join(s, ";")
}

func normalisedPoint(p data.Point) data.Point {
	if p.Key == "" {
		p.Key = "0"
	}
	return p
}

func TestC02(t *testing.T) {
	runCheck(t, "C02", "model_checking", func(r *mc.Report, t *testing.T) {
		depth, dev := 3, 0
		if thorough() {
			// deeper histories without scheduling deviations, then (below) depth 3 with one deviation
			depth, dev = 4, 0
			defer r.Explore(mc.Config{Name: "histories-d3-dev1", Serial: true, SplitDepth: 2, DevBound: 1, StopAfterViolations: 40,
				Rule: "the same with all histories of 3 operations and one scheduling deviation per execution (another delivery order at one step, or the next operation issued before quiescence)"},
				c02Body(t, 3, 1))
		}
		r.Explore(mc.Config{Name: fmt.Sprintf("histories-d%d-dev%d", depth, dev), Serial: true, SplitDepth: 2, DevBound: dev, StopAfterViolations: 40,
			Rule: fmt.Sprintf("two real stores linked by the real SyncClient (period 1 s) after an initial catch-up; all histories of %d operations over 33 (point with an existing identity, plain, 300 us after the newest one, or marked removed (point-level tombstone) / with a new key of an existing type, edge point on a shared node and on the second placement of a mirrored node on a shared node at either side, node creation at either side (below the device and below a leaf), node point on a node that is placed twice inside the device tree, delete / undelete at either side, sync disabled = clean outage / re-enabled, sync settings re-saved while the link is up, link lost abruptly / restored, upstream process restarted, upstream stopped with its clients reconnecting before its store answers / upstream store back, a sync period passes), %d scheduling deviations; then the link is brought up, 5 periods pass, and the device subtrees (deleted nodes included, every point with all fields) must be identical and hold the newest accepted write per identity", depth, dev)},
			c02Body(t, depth, dev))
		r.Assume("outages: the sync node disabled / re-enabled (clean disconnect) and abrupt loss of the sync client's upstream connection (queued deliveries lost, its publishes buffered and flushed on recovery, Disconnected/Reconnected handlers); an upstream restart = its clients lose the link, the store stops and reopens the same file, the clients reconnect")
		r.Assume("root edge points of the device node are not compared (the code excludes them from synchronisation)")
	})
}

func init() {
	bodies["C02/histories-d3-dev0"] = func(t *testing.T) mc.Body { return c02Body(t, 3, 0) }
	bodies["C02/histories-d4-dev1"] = func(t *testing.T) mc.Body { return c02Body(t, 4, 1) }
	bodies["C02/histories-d4-dev0"] = func(t *testing.T) mc.Body { return c02Body(t, 4, 0) }
	bodies["C02/histories-d3-dev1"] = func(t *testing.T) mc.Body { return c02Body(t, 3, 1) }
}
