//go:build go1.25

package tb

import (
	"encoding/json"
	"fmt"
	"os"
	"sync"
	"testing"
	"time"

	"github.com/nats-io/nats.go"
	"github.com/simpleiot/simpleiot/client"
	"github.com/simpleiot/simpleiot/data"
	"verif/h/sh"
)

// TestC20Race is the free-running pass for the "no data race" clause of C20:
// the same client thread bodies as TestC20, on the asynchronous bus (one
// goroutine per subscription, like real NATS), real time, all cores, compiled
// with -race and WITHOUT the gate overlay. A cooperative scheduler orders
// everything by hand-offs and therefore cannot see races; this pass is sampling
// and is reported as such.
func TestC20Race(t *testing.T) {
	out := os.Getenv("VERIF_RACE_OUT")
	if out == "" {
		t.Skip("only run by run.sh")
	}
	iters := 150
	if thorough() {
		iters = 1500
	}
	threads := c20Threads()
	var mu sync.Mutex
	done := 0
	var wg sync.WaitGroup
	sem := make(chan struct{}, 8)
	start := time.Now()
	// wall-clock budget for LAUNCHING iterations (this pass is sampling anyway): on a tree whose store
	// deadlocks under this load every iteration lasts as long as the request timeouts, and the
	// exhaustive part, not this one, is what reports that
	budget := 90 * time.Second
	if thorough() {
		budget = 15 * time.Minute
	}
	for it := 0; it < iters; it++ {
		if time.Since(start) > budget {
			break
		}
		wg.Add(1)
		sem <- struct{}{}
		go func(it int) {
			defer wg.Done()
			defer func() { <-sem }()
			inst, err := sh.New(sh.Opts{Mode: nats.Async})
			if err != nil {
				return
			}
			_ = client.SendNode(inst.Nc, data.NodeEdge{ID: "N", Parent: inst.RootID, Type: "vtest", Points: data.Points{{Type: "value", Value: 0, Time: c20ts(1)}}}, "")
			rec := &c20Rec{acked: map[string]data.Point{}}
			var tw sync.WaitGroup
			for _, th := range threads {
				th := th
				nc := inst.Bus.Connect()
				tw.Add(1)
				go func() { defer tw.Done(); th.run(inst, nc, rec, true); nc.Close() }()
			}
			// a second root edge is inserted while the root is being read (meta.RootID)
			if it%3 == 0 {
				nc := inst.Bus.Connect()
				tw.Add(2)
				go func() {
					defer tw.Done()
					_ = client.SendEdgePoints(nc, fmt.Sprintf("newroot%d", it), "root", data.Points{{Type: data.PointTypeTombstone, Time: c20ts(50)}, {Type: data.PointTypeNodeType, Text: "device"}}, true)
				}()
				go func() {
					defer tw.Done()
					for k := 0; k < 5; k++ {
						_, _ = client.GetNodes(nc, "root", "all", "", false)
					}
				}()
			}
			tw.Wait()
			if it%2 == 0 {
				inst.Store.Stop(nil) // shutdown with requests possibly still in flight next time round
				inst.Stop2()
				os.RemoveAll(inst.Dir)
			} else {
				inst.Close()
			}
			mu.Lock()
			done++
			mu.Unlock()
		}(it)
	}
	wg.Wait()
	sh.CleanupTemplate()
	b, _ := json.Marshal(map[string]any{"planned": iters, "iterations": done, "threads_per_iteration": len(threads), "wall_s": time.Since(start).Seconds()})
	os.WriteFile(out, b, 0o644)
}
