package main

import (
	"fmt"

	"github.com/nats-io/nats.go"
)

var nsrv int

// newServer: a bus of the in-process stand-in, asynchronous mode.
func newServer(token string) (string, func()) {
	nsrv++
	url := fmt.Sprintf("nats://conf%d:4222", nsrv)
	b := nats.NewBus(url, nats.Async)
	b.Token = token
	return url, func() { nats.RemoveBus(url) }
}
