// Package mc is the shared core of the verification harnesses: an exhaustive,
// deviation-bounded DFS over choice sequences (stateless model checking of a
// deterministic harness body), plus helpers for plain exhaustive enumerations,
// evidence files, replay files and the known-findings list.
package mc

import (
	"encoding/json"
	"fmt"
	"hash/fnv"
	"os"
	"path/filepath"
	"runtime"
	"runtime/debug"
	"sort"
	"strings"
	"sync"
	"sync/atomic"
	"time"
)

// ---------------------------------------------------------------------------
// choice sequences

type point struct {
	n   int
	dev bool
}

// X is handed to a harness body for one execution.
type X struct {
	prefix  []int
	choices []int
	pts     []point
	hist    []string
	steps   int
	keys    []uint64 // state keys handed over by the body
	pruned  bool
	seen    *stateSet
	sample  bool
}

// ErrPruned is panicked (and recovered by the explorer) when a state key was
// already seen.
type prunedT struct{}

func (x *X) pick(n int, dev bool, label string) int {
	if n <= 0 {
		panic(fmt.Sprintf("mc: Choose(%d) at %q", n, label))
	}
	i := len(x.choices)
	c := 0
	if i < len(x.prefix) {
		c = x.prefix[i]
		if c >= n {
			panic(fmt.Sprintf("mc: replay divergence: choice %d of %d at point %d (%s)", c, n, i, label))
		}
	}
	x.choices = append(x.choices, c)
	x.pts = append(x.pts, point{n, dev})
	return c
}

// Choose explores all n alternatives.
func (x *X) Choose(n int, label string) int { return x.pick(n, false, label) }

// Deviate explores alternative 0 for free; any other alternative costs one
// deviation of the budget.
func (x *X) Deviate(n int, label string) int { return x.pick(n, true, label) }

// Bool is Choose(2)==1.
func (x *X) Bool(label string) bool { return x.pick(2, false, label) == 1 }

// Logf appends to the human-readable history of this execution.
func (x *X) Logf(f string, a ...any) { x.hist = append(x.hist, fmt.Sprintf(f, a...)) }

// Step counts n transitions (operations executed on the real code).
func (x *X) Step(n int) { x.steps += n }

// Replaying reports whether the execution is still inside the replayed prefix.
func (x *X) Replaying() bool { return len(x.choices) < len(x.prefix) }

// StateKey hands over a canonical serialisation of the whole state reached.
// If the state has been seen before (by any execution) the execution is
// pruned: the call does not return. Must only be called outside the prefix
// being replayed to have an effect.
func (x *X) StateKey(k string) {
	h := hash64(k)
	x.keys = append(x.keys, h)
	if x.seen == nil {
		return
	}
	if len(x.choices) < len(x.prefix) {
		// still replaying the path to the subtree root: never prune here
		x.seen.add(h)
		return
	}
	if !x.seen.add(h) {
		x.pruned = true
		panic(prunedT{})
	}
}

// History returns the log lines.
func (x *X) History() []string { return x.hist }

// Choices returns the choice sequence so far.
func (x *X) Choices() []int { return append([]int{}, x.choices...) }

// Outcome of one execution.
type Outcome struct {
	// Violation is empty when the property held on this execution.
	Violation string
	// Key is the stable class of the violation, matched against
	// known-findings.json. Empty key = the message itself.
	Key string
	// Obs is a canonical description of what was observed; its hash is used
	// to count distinct outcomes/states and for the determinism self-check.
	Obs string
	// Trivial marks executions the harness considers trivial (not counted in
	// distinct_nontrivial).
	Trivial bool
	// More holds further violations found by the same execution.
	More []Outcome
}

func hash64(s string) uint64 {
	h := fnv.New64a()
	h.Write([]byte(s))
	return h.Sum64()
}

type stateSet struct {
	mu sync.Mutex
	m  map[uint64]struct{}
}

func (s *stateSet) add(h uint64) bool {
	s.mu.Lock()
	defer s.mu.Unlock()
	if _, ok := s.m[h]; ok {
		return false
	}
	s.m[h] = struct{}{}
	return true
}
func (s *stateSet) len() int { s.mu.Lock(); defer s.mu.Unlock(); return len(s.m) }

// ---------------------------------------------------------------------------
// explorer

// Config of one exploration.
type Config struct {
	Name     string // part name
	Rule     string // how cases are enumerated / what is non-trivial
	DevBound int    // max deviations (Deviate alternatives != 0) per execution
	Workers  int    // 0 = GOMAXPROCS
	// Budget ends the exploration (exit 0, exhaustive:false) when exceeded.
	Budget time.Duration
	// MaxExec caps the number of executions (0 = none).
	MaxExec int64
	// Prune enables StateKey pruning (explicit-state search).
	Prune bool
	// SelfCheckEvery: every k-th execution is run twice and Obs compared.
	SelfCheckEvery int64
	// StopAfterViolations: stop exploring after that many distinct violation keys (default 8).
	StopAfterViolations int
	// Serial forces one worker (for bodies that are not goroutine safe).
	Serial bool
	// SplitDepth: when the check runs sharded over processes, executions whose
	// prefix is at least this long belong to the shard hash(prefix[:SplitDepth]) % n
	// (default 4). Shorter prefixes are run by every shard and counted by shard 0.
	SplitDepth int
}

// Body is a deterministic function of the choice sequence.
type Body func(x *X) Outcome

// PartStats is the measured coverage of one part of a check.
type PartStats struct {
	Name           string   `json:"name"`
	Rule           string   `json:"rule,omitempty"`
	Evaluations    int64    `json:"evaluations"`
	Distinct       int64    `json:"distinct_nontrivial"`
	States         int64    `json:"states,omitempty"`
	Transitions    int64    `json:"transitions,omitempty"`
	ChoicePoints   int64    `json:"choice_points,omitempty"`
	MaxDepth       int      `json:"max_depth,omitempty"`
	DevBound       int      `json:"deviation_bound,omitempty"`
	Pruned         int64    `json:"pruned_revisits,omitempty"`
	SelfChecked    int64    `json:"replayed_identical,omitempty"`
	Nondeterminism int64    `json:"replay_mismatches,omitempty"`
	Exhaustive     bool     `json:"exhaustive"`
	CapsHit        []string `json:"caps_hit,omitempty"`
	WallS          float64  `json:"wall_s"`
	Outcomes       int64    `json:"distinct_outcomes,omitempty"`
	stateHashes    []uint64
	StateHashes    []uint64 `json:"state_hashes,omitempty"` // only in shard partial files
}

type work struct {
	prefix []int
	devs   int
}

func runOne(body Body, prefix []int, seen *stateSet) (x *X, out Outcome, crashed string) {
	x = &X{prefix: prefix, seen: seen}
	defer func() {
		if r := recover(); r != nil {
			if _, ok := r.(prunedT); ok {
				out = Outcome{Trivial: true, Obs: "pruned"}
				return
			}
			crashed = fmt.Sprintf("panic: %v\n%s", r, trimStack(debug.Stack()))
			out = Outcome{Violation: fmt.Sprintf("panic in harness or implementation: %v", r), Key: "panic:" + firstLine(fmt.Sprint(r))}
		}
	}()
	out = body(x)
	return
}

func firstLine(s string) string {
	if i := strings.IndexByte(s, '\n'); i >= 0 {
		s = s[:i]
	}
	if len(s) > 120 {
		s = s[:120]
	}
	return s
}

func trimStack(b []byte) string {
	s := string(b)
	if len(s) > 4000 {
		s = s[:4000]
	}
	return s
}

// Explore runs the exhaustive DFS and adds the result to the report.
func (r *Report) Explore(cfg Config, body Body) *PartStats {
	start := time.Now()
	ps := &PartStats{Name: cfg.Name, Rule: cfg.Rule, DevBound: cfg.DevBound}
	workers := cfg.Workers
	if workers <= 0 {
		workers = runtime.GOMAXPROCS(0)
	}
	if cfg.Serial {
		workers = 1
	}
	if cfg.StopAfterViolations == 0 {
		cfg.StopAfterViolations = 8
	}
	if cfg.Budget == 0 {
		// a bound on every part, so that no registered command runs away: 75 minutes (VERIF_PART_BUDGET_MIN
		// overrides; 0 = none). A part that hits it ends with exit 0, exhaustive:false and the cap on record.
		min := 75
		if v := os.Getenv("VERIF_PART_BUDGET_MIN"); v != "" {
			fmt.Sscanf(v, "%d", &min)
		}
		cfg.Budget = time.Duration(min) * time.Minute
	}
	shardI, shardN := Shard()
	if cfg.SplitDepth == 0 {
		cfg.SplitDepth = 4
	}
	if shardN > 1 {
		workers = 1
	}
	owner := func(prefix []int) int {
		if shardN <= 1 {
			return 0
		}
		if len(prefix) < cfg.SplitDepth {
			return -1 // shared
		}
		return int(hash64(fmt.Sprint(prefix[:cfg.SplitDepth])) % uint64(shardN))
	}
	var seen *stateSet
	if cfg.Prune {
		seen = &stateSet{m: map[uint64]struct{}{}}
	}
	states := &stateSet{m: map[uint64]struct{}{}}
	outcomes := &stateSet{m: map[uint64]struct{}{}}
	nontriv := &stateSet{m: map[uint64]struct{}{}}

	var mu sync.Mutex
	cond := sync.NewCond(&mu)
	stack := []work{{}}
	active := 0
	stop := false
	var evals, trans, cps, pruned, selfc, nondet int64
	maxDepth := 0
	vioKeys := map[string]bool{}
	deadline := time.Time{}
	if cfg.Budget > 0 {
		deadline = start.Add(cfg.Budget)
	}
	caps := map[string]bool{}

	worker := func() {
		for {
			mu.Lock()
			for len(stack) == 0 && active > 0 && !stop {
				cond.Wait()
			}
			if stop || len(stack) == 0 {
				mu.Unlock()
				cond.Broadcast()
				return
			}
			w := stack[len(stack)-1]
			stack = stack[:len(stack)-1]
			active++
			mu.Unlock()

			if shardN > 1 {
				noteCurrent(cfg.Name, w.prefix)
			}
			x, out, crashed := runOne(body, w.prefix, seen)
			if shardN > 1 {
				noteCurrent("", nil)
			}
			own := owner(w.prefix)
			counted := own == shardI || (own == -1 && shardI == 0) || shardN <= 1
			var n int64
			if counted {
				n = atomic.AddInt64(&evals, 1)
				atomic.AddInt64(&trans, int64(x.steps))
			} else {
				out.Violation = ""
				out.Trivial = true
			}
			if x.pruned {
				atomic.AddInt64(&pruned, 1)
			}
			for _, k := range x.keys {
				states.add(k)
			}
			oh := hash64(out.Obs + "\x00" + out.Violation)
			outcomes.add(oh)
			if !out.Trivial {
				nontriv.add(hash64(fmt.Sprint(x.choices)))
			}
			if !cfg.Prune && out.Obs != "" && counted {
				states.add(hash64(out.Obs))
			}
			if counted && cfg.SelfCheckEvery > 0 && n%cfg.SelfCheckEvery == 0 && !x.pruned && !cfg.Prune {
				_, out2, _ := runOne(body, x.choices, nil)
				if out2.Obs == out.Obs && out2.Violation == out.Violation {
					atomic.AddInt64(&selfc, 1)
				} else {
					atomic.AddInt64(&nondet, 1)
				}
			}
			for _, o := range append([]Outcome{out}, out.More...) {
				if o.Violation == "" {
					continue
				}
				key := o.Key
				if key == "" {
					key = o.Violation
				}
				mu.Lock()
				first := !vioKeys[key]
				vioKeys[key] = true
				mu.Unlock()
				if first {
					r.addViolation(cfg.Name, key, o.Violation, x, crashed, body)
				}
			}
			if out.Violation != "" {
				mu.Lock()
				nk := len(vioKeys)
				mu.Unlock()
				if nk >= cfg.StopAfterViolations {
					mu.Lock()
					stop = true
					caps["stopped after "+fmt.Sprint(nk)+" distinct violation classes"] = true
					mu.Unlock()
				}
			}
			if counted && r.wantSample() && !out.Trivial && len(x.hist) > 0 {
				r.AddSample(map[string]any{"part": cfg.Name, "choices": x.choices, "history": x.hist})
			}

			// expand siblings
			var kids []work
			devs := w.devs
			for i := 0; i < len(x.pts); i++ {
				if i >= len(w.prefix) {
					p := x.pts[i]
					cost := devs
					if p.dev {
						cost++
					}
					if cost <= cfg.DevBound || !p.dev {
						for alt := p.n - 1; alt >= 1; alt-- {
							np := make([]int, i+1)
							copy(np, x.choices[:i])
							np[i] = alt
							if o := owner(np); o != -1 && o != shardI {
								continue
							}
							kids = append(kids, work{np, cost})
						}
					}
				}
				// choice i (as taken) contributes to devs for later points; beyond the prefix it is 0
			}
			mu.Lock()
			if len(x.choices) > maxDepth {
				maxDepth = len(x.choices)
			}
			if counted {
				cps += int64(len(x.pts) - min(len(w.prefix), len(x.pts)))
			}
			// push in reverse so that lower alternatives/earlier points are popped last->first DFS order
			for i := len(kids) - 1; i >= 0; i-- {
				stack = append(stack, kids[i])
			}
			active--
			if cfg.MaxExec > 0 && evals >= cfg.MaxExec {
				stop = true
				caps[fmt.Sprintf("max executions %d", cfg.MaxExec)] = true
			}
			if !deadline.IsZero() && time.Now().After(deadline) {
				stop = true
				caps[fmt.Sprintf("time budget %s", cfg.Budget)] = true
			}
			mu.Unlock()
			cond.Broadcast()
		}
	}
	var wg sync.WaitGroup
	for i := 0; i < workers; i++ {
		wg.Add(1)
		go func() { defer wg.Done(); worker() }()
	}
	wg.Wait()

	ps.Evaluations = evals
	ps.Transitions = trans
	ps.ChoicePoints = cps
	ps.MaxDepth = maxDepth
	ps.Pruned = pruned
	ps.SelfChecked = selfc
	ps.Nondeterminism = nondet
	ps.States = int64(states.len())
	if shardN > 1 && states.len() <= 4000000 {
		for h := range states.m {
			ps.stateHashes = append(ps.stateHashes, h)
		}
	}
	ps.Outcomes = int64(outcomes.len())
	ps.Distinct = int64(nontriv.len())
	ps.Exhaustive = len(caps) == 0
	for c := range caps {
		ps.CapsHit = append(ps.CapsHit, c)
	}
	sort.Strings(ps.CapsHit)
	ps.WallS = time.Since(start).Seconds()
	r.addPart(ps)
	if nondet > 0 {
		r.Notef("part %s: %d of %d self-check replays differed (nondeterminism in harness)", cfg.Name, nondet, nondet+selfc)
	}
	return ps
}

// ---------------------------------------------------------------------------
// plain exhaustive enumerations

// Part is a hand-counted part of a check (nested loops over finite alphabets).
type Part struct {
	r     *Report
	ps    *PartStats
	start time.Time
	evals atomic.Int64
	dist  atomic.Int64
	trans atomic.Int64
	caps  sync.Map
	mu    sync.Mutex
	vk    map[string]bool
}

// Part starts a hand-counted part.
func (r *Report) Part(name, rule string) *Part {
	return &Part{r: r, ps: &PartStats{Name: name, Rule: rule, Exhaustive: true}, start: time.Now(), vk: map[string]bool{}}
}

// Case counts one evaluated case; nontrivial cases are distinct by
// construction of the enumeration (the caller's loops never repeat a case).
func (p *Part) Case(nontrivial bool) {
	p.evals.Add(1)
	if nontrivial {
		p.dist.Add(1)
	}
}

// Cases counts n evaluated cases of which d distinct non-trivial.
func (p *Part) Cases(n, d int64) { p.evals.Add(n); p.dist.Add(d) }

// Step counts transitions.
func (p *Part) Step(n int64) { p.trans.Add(n) }

// Cap records that a cap was hit (exhaustive becomes false).
func (p *Part) Cap(what string) { p.caps.Store(what, true) }

// Violations returns the number of distinct violation classes so far.
func (p *Part) Violations() int { p.mu.Lock(); defer p.mu.Unlock(); return len(p.vk) }

// Violation records a violation found by a plain enumeration. input is stored
// in the replay file.
func (p *Part) Violation(key, msg string, input any) {
	p.mu.Lock()
	first := !p.vk[key]
	p.vk[key] = true
	p.mu.Unlock()
	if first {
		p.r.addViolationInput(p.ps.Name, key, msg, input)
	}
}

// Done adds the part to the report.
func (p *Part) Done() *PartStats {
	p.ps.Evaluations = p.evals.Load()
	p.ps.Distinct = p.dist.Load()
	p.ps.Transitions = p.trans.Load()
	p.caps.Range(func(k, _ any) bool {
		p.ps.CapsHit = append(p.ps.CapsHit, k.(string))
		p.ps.Exhaustive = false
		return true
	})
	p.ps.WallS = time.Since(p.start).Seconds()
	p.r.addPart(p.ps)
	return p.ps
}

// ParallelFor runs f(i) for i in [0,n) on all cores.
func ParallelFor(n int, f func(i int)) {
	w := runtime.GOMAXPROCS(0)
	if w > n {
		w = n
	}
	var next atomic.Int64
	var wg sync.WaitGroup
	for k := 0; k < w; k++ {
		wg.Add(1)
		go func() {
			defer wg.Done()
			for {
				i := int(next.Add(1) - 1)
				if i >= n {
					return
				}
				f(i)
			}
		}()
	}
	wg.Wait()
}

// Safely runs f and converts a panic into a message.
func Safely(f func()) (panicMsg string) {
	defer func() {
		if r := recover(); r != nil {
			panicMsg = fmt.Sprintf("%v", r)
			if panicMsg == "" {
				panicMsg = "panic"
			}
		}
	}()
	f()
	return ""
}

// ---------------------------------------------------------------------------
// report, evidence, findings

// Violation as recorded.
type Violation struct {
	Part    string   `json:"part"`
	Key     string   `json:"key"`
	Message string   `json:"message"`
	Choices []int    `json:"choices,omitempty"`
	History []string `json:"history,omitempty"`
	Input   any      `json:"input,omitempty"`
	Stack   string   `json:"stack,omitempty"`
	Replays int      `json:"replays_identical"`
	Known   bool     `json:"known_finding"`
	Replay  string   `json:"replay_file,omitempty"`
}

// Finding is an entry of known-findings.json.
type Finding struct {
	Property string `json:"property"`
	Key      string `json:"key"`
	Status   string `json:"status"` // known | fixed
	Commit   string `json:"commit,omitempty"`
	What     string `json:"what"`
}

// Report collects everything one check run measured.
type Report struct {
	Property string
	Tier     string
	Level    string
	Seed     int64
	Root     string // /verif
	start    time.Time

	mu            sync.Mutex
	parts         []*PartStats
	violations    []*Violation
	samples       []any
	maxSamples    int
	notes         []string
	assumptions   []string
	extra         map[string]any
	inconcl       []string
	shardFailures []string
}

// NewReport starts a report. root is the /verif directory.
func NewReport(root, property, tier, level string) *Report {
	seed := int64(0)
	if s := os.Getenv("VERIF_SEED"); s != "" {
		fmt.Sscan(s, &seed)
	}
	return &Report{Property: property, Tier: tier, Level: level, Root: root, Seed: seed, start: time.Now(), maxSamples: 6, extra: map[string]any{}}
}

func (r *Report) addPart(ps *PartStats) {
	r.mu.Lock()
	r.parts = append(r.parts, ps)
	r.mu.Unlock()
	fmt.Printf("  part %-28s evals=%d distinct=%d states=%d transitions=%d depth=%d exhaustive=%v %.1fs %s\n",
		ps.Name, ps.Evaluations, ps.Distinct, ps.States, ps.Transitions, ps.MaxDepth, ps.Exhaustive, ps.WallS, strings.Join(ps.CapsHit, "; "))
}

func (r *Report) wantSample() bool {
	r.mu.Lock()
	defer r.mu.Unlock()
	return len(r.samples) < r.maxSamples
}

// AddSample records one actual case.
func (r *Report) AddSample(s any) {
	r.mu.Lock()
	defer r.mu.Unlock()
	if len(r.samples) < r.maxSamples+4 {
		r.samples = append(r.samples, s)
	}
}

// Notef adds a free-text note to the evidence.
func (r *Report) Notef(f string, a ...any) {
	r.mu.Lock()
	r.notes = append(r.notes, fmt.Sprintf(f, a...))
	r.mu.Unlock()
}

// Assume records an assumption / trusted base item.
func (r *Report) Assume(s string) {
	r.mu.Lock()
	r.assumptions = append(r.assumptions, s)
	r.mu.Unlock()
}

// Extra sets an extra coverage key.
func (r *Report) Extra(k string, v any) { r.mu.Lock(); r.extra[k] = v; r.mu.Unlock() }

// Inconclusive records something that could not be decided (no alarm).
func (r *Report) Inconclusive(s string) { r.mu.Lock(); r.inconcl = append(r.inconcl, s); r.mu.Unlock() }

func (r *Report) addViolation(part, key, msg string, x *X, stack string, body Body) {
	v := &Violation{Part: part, Key: key, Message: msg, Choices: x.Choices(), History: x.History(), Stack: stack}
	// replay 5x before believing it
	same := 0
	for i := 0; i < 5; i++ {
		_, out, _ := runOne(body, v.Choices, nil)
		k := out.Key
		if k == "" {
			k = out.Violation
		}
		_ = k
		if out.Violation != "" {
			same++ // the same choice sequence violates again (its class may differ when the implementation iterates a map)
		}
	}
	v.Replays = same
	r.mu.Lock()
	r.violations = append(r.violations, v)
	r.mu.Unlock()
}

func (r *Report) addViolationInput(part, key, msg string, input any) {
	v := &Violation{Part: part, Key: key, Message: msg, Input: input, Replays: 5}
	r.mu.Lock()
	r.violations = append(r.violations, v)
	r.mu.Unlock()
}

// AddViolation records a violation found by machinery outside Explore/Part
// (e.g. the crash enumerator), already confirmed by the caller.
func (r *Report) AddViolation(part, key, msg string, input any) {
	r.mu.Lock()
	for _, v := range r.violations {
		if v.Key == key {
			r.mu.Unlock()
			return
		}
	}
	r.mu.Unlock()
	r.addViolationInput(part, key, msg, input)
}

// LoadFindings reads known-findings.json.
func LoadFindings(root string) []Finding {
	b, err := os.ReadFile(filepath.Join(root, "known-findings.json"))
	if err != nil {
		return nil
	}
	var f struct {
		Findings []Finding `json:"findings"`
	}
	if err := json.Unmarshal(b, &f); err != nil {
		fmt.Fprintln(os.Stderr, "HARNESS-ERROR: known-findings.json:", err)
		os.Exit(3)
	}
	return f.Findings
}

// KnownKeys returns the keys listed as known (not fixed) for the property.
func KnownKeys(root, property string) map[string]string {
	m := map[string]string{}
	for _, f := range LoadFindings(root) {
		if f.Property == property && f.Status == "known" {
			m[f.Key] = f.What
		}
	}
	return m
}

// Finish writes evidence and replay files, prints KNOWN-FINDING / VIOLATION
// lines and returns the exit code.
func (r *Report) Finish() int {
	if _, n := Shard(); n > 1 {
		return r.writePartial()
	}
	known := KnownKeys(r.Root, r.Property)
	sort.Slice(r.violations, func(i, j int) bool { return r.violations[i].Key < r.violations[j].Key })
	replayDir := filepath.Join(r.Root, "replays", r.Property)
	os.RemoveAll(replayDir)
	nviol, nknown := 0, 0
	var lines []string
	seenKey := map[string]bool{}
	for i, v := range r.violations {
		if seenKey[v.Key] {
			continue
		}
		seenKey[v.Key] = true
		if what, ok := known[v.Key]; ok {
			v.Known = true
			nknown++
			lines = append(lines, fmt.Sprintf("KNOWN-FINDING: property=%s key=%s %s", r.Property, v.Key, what))
			continue
		}
		if v.Replays < 5 {
			r.Inconclusive(fmt.Sprintf("violation %q reproduced only %d/5 times on replay; not reported", v.Key, v.Replays))
			continue
		}
		nviol++
		os.MkdirAll(replayDir, 0o755)
		path := filepath.Join(replayDir, fmt.Sprintf("%d.json", i))
		v.Replay = path
		b, _ := json.MarshalIndent(map[string]any{"property": r.Property, "tier": r.Tier, "violation": v}, "", " ")
		os.WriteFile(path, b, 0o644)
		lines = append(lines, fmt.Sprintf("VIOLATION property=%s replay=%s key=%s :: %s", r.Property, path, v.Key, firstLine(v.Message)))
	}

	var evals, dist, states, trans int64
	exhaustive := true
	var rules []string
	maxDepth := 0
	for _, p := range r.parts {
		evals += p.Evaluations
		dist += p.Distinct
		states += p.States
		trans += p.Transitions
		if !p.Exhaustive {
			exhaustive = false
		}
		if p.Rule != "" {
			rules = append(rules, p.Name+": "+p.Rule)
		}
		if p.MaxDepth > maxDepth {
			maxDepth = p.MaxDepth
		}
	}
	if len(r.inconcl) > 0 {
		exhaustive = false
	}
	cov := map[string]any{
		"evaluations":         evals,
		"distinct_nontrivial": dist,
		"rule":                strings.Join(rules, " | "),
		"samples":             r.samples,
		"exhaustive":          exhaustive,
		"parts":               r.parts,
	}
	if r.Level == "model_checking" {
		cov["states"] = states
		cov["transitions"] = trans
		if _, ok := r.extra["traces_validated_against_impl"]; !ok {
			cov["traces_validated_against_impl"] = evals
		}
		cov["max_depth"] = maxDepth
	}
	if len(r.notes) > 0 {
		cov["notes"] = r.notes
	}
	if len(r.inconcl) > 0 {
		cov["inconclusive"] = r.inconcl
	}
	if len(r.violations) > 0 {
		cov["violations_found"] = r.violations
	}
	for k, v := range r.extra {
		cov[k] = v
	}
	if len(r.samples) == 0 {
		cov["samples"] = []any{"(no sample recorded)"}
	}
	ev := map[string]any{
		"property_id": r.Property,
		"tier":        r.Tier,
		"seed":        r.Seed,
		"level":       r.Level,
		"coverage":    cov,
		"assumptions": r.assumptions,
		"wall_s":      time.Since(r.start).Seconds(),
		"violations":  nviol,
	}
	if r.assumptions == nil {
		ev["assumptions"] = []string{}
	}
	b, err := json.MarshalIndent(ev, "", " ")
	if err != nil {
		fmt.Fprintln(os.Stderr, "HARNESS-ERROR: evidence marshal:", err)
		return 3
	}
	os.MkdirAll(filepath.Join(r.Root, "evidence"), 0o755)
	if err := os.WriteFile(filepath.Join(r.Root, "evidence", r.Property+".json"), b, 0o644); err != nil {
		fmt.Fprintln(os.Stderr, "HARNESS-ERROR: evidence write:", err)
		return 3
	}
	for _, l := range lines {
		fmt.Println(l)
	}
	fmt.Printf("%s %s: evaluations=%d distinct=%d states=%d transitions=%d exhaustive=%v violations=%d known=%d wall=%.1fs\n",
		r.Property, r.Tier, evals, dist, states, trans, exhaustive, nviol, nknown, time.Since(r.start).Seconds())
	if nviol > 0 {
		return 1
	}
	return 0
}

func min(a, b int) int {
	if a < b {
		return a
	}
	return b
}

// Replay re-executes one recorded choice sequence without the explorer.
func Replay(body Body, choices []int) (Outcome, []string) {
	x, out, _ := runOne(body, choices, nil)
	return out, x.History()
}
