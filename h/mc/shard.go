package mc

import (
	"encoding/json"
	"fmt"
	"os"
	"os/exec"
	"path/filepath"
	"sort"
	"sync"
	"time"
)

// Shard returns (i, n) from VERIF_SHARD="i/n"; (0, 1) when not sharded.
func Shard() (int, int) {
	s := os.Getenv("VERIF_SHARD")
	if s == "" {
		return 0, 1
	}
	var i, n int
	if _, err := fmt.Sscanf(s, "%d/%d", &i, &n); err != nil || n < 1 || i < 0 || i >= n {
		fmt.Fprintln(os.Stderr, "HARNESS-ERROR: bad VERIF_SHARD", s)
		os.Exit(3)
	}
	return i, n
}

type partial struct {
	Parts       []*PartStats   `json:"parts"`
	Violations  []*Violation   `json:"violations"`
	Samples     []any          `json:"samples"`
	Notes       []string       `json:"notes"`
	Assumptions []string       `json:"assumptions"`
	Extra       map[string]any `json:"extra"`
	Inconcl     []string       `json:"inconclusive"`
}

func (r *Report) writePartial() int {
	for _, p := range r.parts {
		p.StateHashes = p.stateHashes
	}
	b, err := json.Marshal(partial{r.parts, r.violations, r.samples, r.notes, r.assumptions, r.extra, r.inconcl})
	if err != nil {
		fmt.Fprintln(os.Stderr, "HARNESS-ERROR: partial marshal:", err)
		return 3
	}
	if err := os.WriteFile(os.Getenv("VERIF_SHARD_OUT"), b, 0o644); err != nil {
		fmt.Fprintln(os.Stderr, "HARNESS-ERROR: partial write:", err)
		return 3
	}
	return 0
}

// RunSharded re-executes the current binary n times with VERIF_SHARD=i/n and
// GOMAXPROCS=1 (one OS process per shard: modernc SQLite scales far better
// across processes than across goroutines) and merges the partial reports into r.
func (r *Report) RunSharded(n int, args []string) {
	dir, err := os.MkdirTemp(ScratchDir(), "verif-shards-")
	if err != nil {
		fmt.Fprintln(os.Stderr, "HARNESS-ERROR:", err)
		os.Exit(3)
	}
	defer os.RemoveAll(dir)
	var wg sync.WaitGroup
	errs := make([]error, n)
	outs := make([][]byte, n)
	for i := 0; i < n; i++ {
		wg.Add(1)
		go func(i int) {
			defer wg.Done()
			cmd := exec.Command(os.Args[0], args...)
			cmd.Env = append(os.Environ(), fmt.Sprintf("VERIF_SHARD=%d/%d", i, n), "VERIF_SHARD_OUT="+filepath.Join(dir, fmt.Sprintf("%d.json", i)), "GOMAXPROCS=1")
			outs[i], errs[i] = cmd.CombinedOutput()
		}(i)
	}
	wg.Wait()
	merged := map[string]*PartStats{}
	var order []string
	stateSets := map[string]map[uint64]struct{}{}
	for i := 0; i < n; i++ {
		b, err := os.ReadFile(filepath.Join(dir, fmt.Sprintf("%d.json", i)))
		if errs[i] != nil || err != nil {
			tail := string(outs[i])
			if len(tail) > 3000 {
				tail = tail[len(tail)-3000:]
			}
			r.Inconclusive(fmt.Sprintf("shard %d/%d did not finish: %v", i, n, errs[i]))
			r.shardFailures = append(r.shardFailures, fmt.Sprintf("shard %d: %v\n%s", i, errs[i], tail))
			continue
		}
		var p partial
		if err := json.Unmarshal(b, &p); err != nil {
			fmt.Fprintln(os.Stderr, "HARNESS-ERROR: shard output:", err)
			os.Exit(3)
		}
		for _, ps := range p.Parts {
			m, ok := merged[ps.Name]
			if !ok {
				cp := *ps
				cp.StateHashes = nil
				merged[ps.Name] = &cp
				order = append(order, ps.Name)
				stateSets[ps.Name] = map[uint64]struct{}{}
				m = &cp
			} else {
				m.Evaluations += ps.Evaluations
				m.Distinct += ps.Distinct
				m.Transitions += ps.Transitions
				m.ChoicePoints += ps.ChoicePoints
				m.Pruned += ps.Pruned
				m.SelfChecked += ps.SelfChecked
				m.Nondeterminism += ps.Nondeterminism
				m.States += ps.States
				m.Outcomes += ps.Outcomes
				if ps.MaxDepth > m.MaxDepth {
					m.MaxDepth = ps.MaxDepth
				}
				if ps.WallS > m.WallS {
					m.WallS = ps.WallS
				}
				m.Exhaustive = m.Exhaustive && ps.Exhaustive
				m.CapsHit = append(m.CapsHit, ps.CapsHit...)
			}
			for _, h := range ps.StateHashes {
				stateSets[ps.Name][h] = struct{}{}
			}
		}
		r.violations = append(r.violations, p.Violations...)
		for _, s := range p.Samples {
			r.AddSample(s)
		}
		r.notes = append(r.notes, p.Notes...)
		if i == 0 {
			r.assumptions = append(r.assumptions, p.Assumptions...)
			for k, v := range p.Extra {
				r.extra[k] = v
			}
		}
		r.inconcl = append(r.inconcl, p.Inconcl...)
	}
	for _, name := range order {
		m := merged[name]
		if len(stateSets[name]) > 0 {
			m.States = int64(len(stateSets[name]))
		}
		sort.Strings(m.CapsHit)
		m.CapsHit = uniq(m.CapsHit)
		r.addPart(m)
	}
	r.extra["shards"] = n
	_ = time.Now
}

func uniq(s []string) []string {
	var out []string
	for i, x := range s {
		if i == 0 || x != s[i-1] {
			out = append(out, x)
		}
	}
	return out
}

// ScratchDir is where temporary files go (never /tmp for registered commands'
// persistent needs; these are removed before the check exits).
func ScratchDir() string {
	if d := os.Getenv("VERIF_SCRATCH"); d != "" {
		return d
	}
	if st, err := os.Stat("/dev/shm"); err == nil && st.IsDir() {
		return "/dev/shm"
	}
	return os.TempDir()
}
