package mc

import (
	"encoding/json"
	"fmt"
	"os"
	"os/exec"
	"path/filepath"
	"sort"
	"strings"
	"sync"
	"time"
)

// Shard returns (i, n) from VERIF_SHARD="i/n"; (0, 1) when not sharded.
func Shard() (int, int) {
	s := os.Getenv("VERIF_SHARD")
	if s == "" {
		return 0, 1
	}
	var i, n int
	if _, err := fmt.Sscanf(s, "%d/%d", &i, &n); err != nil || n < 1 || i < 0 || i >= n {
		fmt.Fprintln(os.Stderr, "HARNESS-ERROR: bad VERIF_SHARD", s)
		os.Exit(3)
	}
	return i, n
}

// ExecGuard is the wall-clock guard for ONE execution in a shard (executions
// take milliseconds; a shard that exceeds it reports the sequence as hanging).
var ExecGuard = 120 * time.Second

var (
	curMu    sync.Mutex
	curTimer *time.Timer
)

type current struct {
	Part   string `json:"part"`
	Prefix []int  `json:"prefix"`
}

// noteCurrent records the sequence about to be executed so that the parent
// can re-run it in isolation if this process dies or hangs.
func noteCurrent(part string, prefix []int) {
	path := os.Getenv("VERIF_SHARD_OUT") + ".cur"
	curMu.Lock()
	defer curMu.Unlock()
	if curTimer != nil {
		curTimer.Stop()
		curTimer = nil
	}
	if part == "" {
		os.Remove(path)
		return
	}
	b, _ := json.Marshal(current{part, prefix})
	os.WriteFile(path, b, 0o644)
	curTimer = time.AfterFunc(ExecGuard, func() {
		fmt.Fprintf(os.Stderr, "SHARD-HANG part=%s prefix=%v exceeded %s\n", part, prefix, ExecGuard)
		os.Exit(7)
	})
}

type partial struct {
	Parts       []*PartStats   `json:"parts"`
	Violations  []*Violation   `json:"violations"`
	Samples     []any          `json:"samples"`
	Notes       []string       `json:"notes"`
	Assumptions []string       `json:"assumptions"`
	Extra       map[string]any `json:"extra"`
	Inconcl     []string       `json:"inconclusive"`
}

func (r *Report) writePartial() int {
	for _, p := range r.parts {
		p.StateHashes = p.stateHashes
	}
	b, err := json.Marshal(partial{r.parts, r.violations, r.samples, r.notes, r.assumptions, r.extra, r.inconcl})
	if err != nil {
		fmt.Fprintln(os.Stderr, "HARNESS-ERROR: partial marshal:", err)
		return 3
	}
	if err := os.WriteFile(os.Getenv("VERIF_SHARD_OUT"), b, 0o644); err != nil {
		fmt.Fprintln(os.Stderr, "HARNESS-ERROR: partial write:", err)
		return 3
	}
	return 0
}

// RunSharded re-executes the current binary n times with VERIF_SHARD=i/n and
// GOMAXPROCS=1 (one OS process per shard: modernc SQLite scales far better
// across processes than across goroutines) and merges the partial reports into r.
func (r *Report) RunSharded(n int, args []string) {
	dir, err := os.MkdirTemp(ScratchDir(), "verif-shards-")
	if err != nil {
		fmt.Fprintln(os.Stderr, "HARNESS-ERROR:", err)
		os.Exit(3)
	}
	defer os.RemoveAll(dir)
	var wg sync.WaitGroup
	errs := make([]error, n)
	outs := make([][]byte, n)
	for i := 0; i < n; i++ {
		wg.Add(1)
		go func(i int) {
			defer wg.Done()
			cmd := exec.Command(os.Args[0], args...)
			cmd.Env = append(os.Environ(), fmt.Sprintf("VERIF_SHARD=%d/%d", i, n), "VERIF_SHARD_OUT="+filepath.Join(dir, fmt.Sprintf("%d.json", i)), "GOMAXPROCS=1", "GODEBUG=asyncpreemptoff=1")
			outs[i], errs[i] = cmd.CombinedOutput()
		}(i)
	}
	wg.Wait()
	merged := map[string]*PartStats{}
	var order []string
	var failed []int
	stateSets := map[string]map[uint64]struct{}{}
	for i := 0; i < n; i++ {
		b, err := os.ReadFile(filepath.Join(dir, fmt.Sprintf("%d.json", i)))
		if errs[i] != nil || err != nil {
			tail := string(outs[i])
			if len(tail) > 3000 {
				tail = tail[len(tail)-3000:]
			}
			r.shardFailures = append(r.shardFailures, fmt.Sprintf("shard %d: %v\n%s", i, errs[i], tail))
			failed = append(failed, i)
			continue
		}
		var p partial
		if err := json.Unmarshal(b, &p); err != nil {
			fmt.Fprintln(os.Stderr, "HARNESS-ERROR: shard output:", err)
			os.Exit(3)
		}
		for _, ps := range p.Parts {
			m, ok := merged[ps.Name]
			if !ok {
				cp := *ps
				cp.StateHashes = nil
				merged[ps.Name] = &cp
				order = append(order, ps.Name)
				stateSets[ps.Name] = map[uint64]struct{}{}
				m = &cp
			} else {
				m.Evaluations += ps.Evaluations
				m.Distinct += ps.Distinct
				m.Transitions += ps.Transitions
				m.ChoicePoints += ps.ChoicePoints
				m.Pruned += ps.Pruned
				m.SelfChecked += ps.SelfChecked
				m.Nondeterminism += ps.Nondeterminism
				m.States += ps.States
				m.Outcomes += ps.Outcomes
				if ps.MaxDepth > m.MaxDepth {
					m.MaxDepth = ps.MaxDepth
				}
				if ps.WallS > m.WallS {
					m.WallS = ps.WallS
				}
				m.Exhaustive = m.Exhaustive && ps.Exhaustive
				m.CapsHit = append(m.CapsHit, ps.CapsHit...)
			}
			for _, h := range ps.StateHashes {
				stateSets[ps.Name][h] = struct{}{}
			}
		}
		r.violations = append(r.violations, p.Violations...)
		for _, s := range p.Samples {
			r.AddSample(s)
		}
		r.notes = append(r.notes, p.Notes...)
		if i == 0 {
			r.assumptions = append(r.assumptions, p.Assumptions...)
			for k, v := range p.Extra {
				r.extra[k] = v
			}
		}
		r.inconcl = append(r.inconcl, p.Inconcl...)
	}
	// dead or hung shards: re-run what they were executing, in isolation (at most 4 of them, concurrently)
	var iwg sync.WaitGroup
	for k, i := range failed {
		if k >= 4 {
			r.Inconclusive(fmt.Sprintf("shard %d/%d did not finish: %v (not re-run: 4 other failed shards were)", i, n, errs[i]))
			continue
		}
		iwg.Add(1)
		go func(i int) {
			defer iwg.Done()
			r.isolate(i, n, filepath.Join(dir, fmt.Sprintf("%d.json.cur", i)), errs[i], "")
		}(i)
	}
	iwg.Wait()
	r.confirmFresh()
	for _, name := range order {
		m := merged[name]
		if len(stateSets[name]) > 0 {
			m.States = int64(len(stateSets[name]))
		}
		sort.Strings(m.CapsHit)
		m.CapsHit = uniq(m.CapsHit)
		r.addPart(m)
	}
	r.extra["shards"] = n
	_ = time.Now
}

func uniq(s []string) []string {
	var out []string
	for i, x := range s {
		if i == 0 || x != s[i-1] {
			out = append(out, x)
		}
	}
	return out
}

// ScratchDir is where temporary files go (never /tmp for registered commands'
// persistent needs; these are removed before the check exits).
func ScratchDir() string {
	if d := os.Getenv("VERIF_SCRATCH"); d != "" {
		return d
	}
	if st, err := os.Stat("/dev/shm"); err == nil && st.IsDir() {
		return "/dev/shm"
	}
	return os.TempDir()
}

func clip(s string, n int) string {
	if len(s) > n {
		return s[:n] + "..."
	}
	return s
}

// CrossExecutionKeys: prefixes of violation classes whose oracle compares one execution with an earlier one of
// the same process (differential oracles); a single sequence in a fresh process cannot reproduce them.
var CrossExecutionKeys []string

// confirmFresh re-runs the choice sequence of every violation an explorer shard reported in a FRESH process
// (the shard's own five replays run inside the shard process and share whatever process-wide state the
// execution before them left behind). Per violation class the first sequence that violates again in a fresh
// process is kept; a class none of whose sequences (at most 3 tried) does is not reported (inconclusive).
func (r *Report) confirmFresh() {
	crossExec := func(key string) bool {
		for _, p := range CrossExecutionKeys {
			if strings.HasPrefix(key, p) {
				return true
			}
		}
		return false
	}
	r.mu.Lock()
	vs := r.violations
	r.mu.Unlock()
	confirmed, tried := map[string]bool{}, map[string]int{}
	var keep []*Violation
	for _, v := range vs {
		if v.Input != nil || v.Part == "" || v.Stack != "" && len(v.History) == 0 || v.Replays < 5 || crossExec(v.Key) {
			keep = append(keep, v) // not a choice-sequence violation of Explore (or already not believed)
			continue
		}
		if confirmed[v.Key] {
			continue
		}
		if tried[v.Key] >= 3 {
			continue
		}
		tried[v.Key]++
		cj, _ := json.Marshal(v.Choices)
		if v.Choices == nil {
			cj = []byte("[]")
		}
		cmd := exec.Command(os.Args[0], "exec-one", r.Property, v.Part, string(cj))
		cmd.Env = append(os.Environ(), "GOMAXPROCS=1", "GODEBUG=asyncpreemptoff=1", "VERIF_SHARD=", "GOTRACEBACK=single")
		if strings.HasSuffix(os.Args[0], ".test") {
			cmd = exec.Command(os.Args[0], os.Args[1:]...)
			cmd.Env = append(os.Environ(), "GOMAXPROCS=1", "GODEBUG=asyncpreemptoff=1", "VERIF_SHARD=", "GOTRACEBACK=single", "VERIF_EXEC_ONE="+v.Part+"|"+string(cj))
		}
		out, err := cmd.CombinedOutput()
		code := 0
		if ee, ok := err.(*exec.ExitError); ok {
			code = ee.ExitCode()
		} else if err != nil {
			code = 3
		}
		switch {
		case code == 0 && strings.Contains(string(out), "violation:") == false:
			r.Inconclusive(fmt.Sprintf("violation %q (part %s, choices %v) violated 5/5 times inside its shard process but not in a fresh process; not reported. It said: %s", v.Key, v.Part, v.Choices, clip(v.Message, 6000)))
		default: // violates again (1), crashes or hangs (other codes), or cannot be re-run (3): keep it
			confirmed[v.Key] = true
			keep = append(keep, v)
		}
	}
	r.mu.Lock()
	r.violations = keep
	r.mu.Unlock()
}

// isolate re-runs the sequence a dead/hung shard was executing, 5 times, each
// in its own process. Only an outcome that reproduces every time is a
// violation; anything else is inconclusive (no alarm).
func (r *Report) isolate(i, n int, curFile string, shardErr error, tail string) {
	b, err := os.ReadFile(curFile)
	var cur current
	if err != nil || json.Unmarshal(b, &cur) != nil || cur.Part == "" {
		r.Inconclusive(fmt.Sprintf("shard %d/%d died outside an execution: %v", i, n, shardErr))
		return
	}
	cj, _ := json.Marshal(cur.Prefix)
	crashes := 0
	var last string
	var mu sync.Mutex
	var wg sync.WaitGroup
	for k := 0; k < 5; k++ {
		wg.Add(1)
		go func() {
			defer wg.Done()
			cmd := exec.Command(os.Args[0], "exec-one", r.Property, cur.Part, string(cj))
			cmd.Env = append(os.Environ(), "GOMAXPROCS=1", "GODEBUG=asyncpreemptoff=1", "VERIF_SHARD=", "GOTRACEBACK=single")
			if strings.HasSuffix(os.Args[0], ".test") { // tier-B test binary: same arguments, sequence through the environment
				cmd = exec.Command(os.Args[0], os.Args[1:]...)
				cmd.Env = append(os.Environ(), "GOMAXPROCS=1", "GODEBUG=asyncpreemptoff=1", "VERIF_SHARD=", "GOTRACEBACK=single", "VERIF_EXEC_ONE="+cur.Part+"|"+string(cj))
			}
			out, err := cmd.CombinedOutput()
			s := string(out)
			if len(s) > 2500 {
				s = s[:1200] + "\n...\n" + s[len(s)-1200:]
			}
			mu.Lock()
			defer mu.Unlock()
			if ee, ok := err.(*exec.ExitError); ok && ee.ExitCode() != 0 && ee.ExitCode() != 1 && ee.ExitCode() != 3 {
				crashes++
				last = s
			} else if last == "" {
				last = s
			}
		}()
	}
	wg.Wait()
	r.Inconclusive(fmt.Sprintf("shard %d/%d stopped at part=%s prefix=%v (%v); the rest of its subtree was not explored", i, n, cur.Part, cur.Prefix, shardErr))
	if crashes == 5 {
		kind := "process-crash"
		if ee, ok := shardErr.(*exec.ExitError); ok && ee.ExitCode() == 7 {
			kind = "hang"
		}
		v := &Violation{Part: cur.Part, Key: kind + "/" + CrashClass(last), Message: fmt.Sprintf("the process executing choice sequence %v %s (5 of 5 isolated re-runs): %s", cur.Prefix, map[string]string{"process-crash": "dies", "hang": "does not finish within the guard"}[kind], firstLine(CrashLine(last))), Choices: cur.Prefix, Stack: last, Replays: 5}
		r.mu.Lock()
		r.violations = append(r.violations, v)
		r.mu.Unlock()
	}
}

// CrashLine extracts the fatal line of a Go crash dump.
func CrashLine(out string) string {
	for _, l := range splitLines(out) {
		if len(l) > 6 && (l[:6] == "fatal " || l[:6] == "panic:" || (len(l) > 10 && l[:10] == "SHARD-HANG") || (len(l) > 8 && l[:8] == "runtime:")) {
			return l
		}
	}
	return firstLine(out)
}

// CrashClass is a short stable class of the crash.
func CrashClass(out string) string {
	l := CrashLine(out)
	switch {
	case contains(l, "stack overflow") || contains(l, "stack exceeds"):
		return "stack-overflow"
	case contains(l, "SHARD-HANG"):
		return "no-return"
	case contains(l, "all goroutines are asleep"):
		return "deadlock"
	}
	if len(l) > 40 {
		l = l[:40]
	}
	return l
}

func contains(s, sub string) bool {
	for i := 0; i+len(sub) <= len(s); i++ {
		if s[i:i+len(sub)] == sub {
			return true
		}
	}
	return false
}

func splitLines(s string) []string {
	var out []string
	start := 0
	for i := 0; i < len(s); i++ {
		if s[i] == '\n' {
			out = append(out, s[start:i])
			start = i + 1
		}
	}
	return append(out, s[start:])
}

// ExecOneJSON is ExecOne with the choices given as JSON.
func ExecOneJSON(body Body, choices string) int {
	var prefix []int
	if err := json.Unmarshal([]byte(choices), &prefix); err != nil {
		fmt.Fprintln(os.Stderr, "HARNESS-ERROR: exec-one: bad choices")
		return 3
	}
	return ExecOne(body, prefix)
}

// ExecOne runs one sequence under the execution guard (used by `exec-one`).
func ExecOne(body Body, prefix []int) int {
	t := time.AfterFunc(ExecGuard, func() {
		fmt.Fprintf(os.Stderr, "SHARD-HANG prefix=%v exceeded %s\n", prefix, ExecGuard)
		os.Exit(7)
	})
	defer t.Stop()
	out, hist := Replay(body, prefix)
	for _, h := range hist {
		fmt.Println("  ", h)
	}
	if out.Violation != "" {
		fmt.Println("violation:", out.Violation)
		fmt.Println("violation-key:", out.Key)
		return 1
	}
	return 0
}
