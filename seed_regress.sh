#!/bin/bash
# seed_regress.sh [seed-name ...] — run every kept seeded change (default: all) against its property's quick check.
# Each must be reported (exit 1 with a VIOLATION line). /repo must be clean; it is restored after every run.
cd /verif
# (mut.sh works on private copies of /repo and /verif: nothing here touches either)
names=("$@"); [ ${#names[@]} -eq 0 ] && names=($(ls seeded))
bad=0
for n in "${names[@]}"; do
  d=seeded/$n; if [ "$(jq -r '.obsolete // empty' $d/meta.json 2>/dev/null)" != "" ]; then printf "%-8s obsolete on the final tree (see meta.json)\n" $n; continue; fi; prop=$(jq -r .property $d/meta.json 2>/dev/null); [ -z "$prop" -o "$prop" = null ] && prop=${n%%-*}
  ./mut.sh $d/patch.diff $prop quick > $d/check_quick.log 2>&1; rc=$?; echo $rc > $d/check_quick.rc
  v=$(grep -c '^VIOLATION' $d/check_quick.log)
  printf "%-8s %-4s rc=%s violations=%s %s\n" $n $prop $rc $v "$(grep -m1 '^VIOLATION' $d/check_quick.log | sed 's/.*key=//' | cut -c1-90)"
  [ $rc -ne 1 -o $v -eq 0 ] && bad=$((bad+1))
done
echo "seeds not reported: $bad"
[ $bad -eq 0 ]
