#!/usr/bin/env python3
# Generates gated copies of the non-test Go files of /repo/store that import database/sql or sync
# (imports rewritten to the vsql / vsync wrappers, which pass a scheduling gate before every SQL
# operation and every Mutex.Lock) and the overlay file. /repo is not touched. Fails loudly only if no
# file of the store package imports database/sql any more (then there is nothing to gate).
import json, sys, os, re, glob
root = os.environ.get('VERIF_ROOT', '/verif')
os.makedirs(root + '/bin/gated', exist_ok=True)
for f in glob.glob(root + '/bin/gated/*'):
    os.remove(f)
repl = {}
n_sql = n_sync = 0
for path in sorted(glob.glob('/repo/store/*.go')):
    if path.endswith('_test.go'):
        continue
    src = open(path).read()
    # import specs: optional alias, then the quoted path (inside an import block or a single import line)
    def sub(pkg, default, new):
        global src
        pat = re.compile(r'(?m)^(\s*(?:import\s+)?)(?:([A-Za-z_][A-Za-z0-9_]*|\.)\s+)?"' + re.escape(pkg) + r'"')
        cnt = 0
        def r(m):
            nonlocal cnt
            cnt += 1
            alias = m.group(2) or default
            return '%s%s "%s"' % (m.group(1), alias, new)
        src = pat.sub(r, src)
        return cnt
    a = sub('database/sql', 'sql', 'verif/h/vsql')
    b = sub('sync', 'sync', 'verif/h/vsync')
    n_sql += a; n_sync += b
    if a or b:
        out = root + '/bin/gated/' + os.path.basename(path) + '.txt'
        open(out, 'w').write(src)
        repl[path] = out
if n_sql == 0:
    print('HARNESS-ERROR: no file of /repo/store imports "database/sql"; the gate overlay cannot be generated'); sys.exit(3)
json.dump({"Replace": repl}, open(root + '/bin/ov_gate.json', 'w'))
print('gated overlay: %d file(s), %d database/sql import(s), %d sync import(s)' % (len(repl), n_sql, n_sync))
