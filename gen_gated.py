#!/usr/bin/env python3
# Generates the gated copy of /repo/store/sqlite.go (imports rewritten to the
# vsql / vsync wrappers) and the overlay file. Fails loudly if the rewrite rule
# no longer applies to the current tree.
import json, sys, os
root = os.environ.get('VERIF_ROOT', '/verif')
src = open('/repo/store/sqlite.go').read()
n1 = src.count('\t"database/sql"\n'); n2 = src.count('\t"sync"\n')
if n1 != 1 or n2 != 1:
    print('HARNESS-ERROR: store/sqlite.go no longer imports "database/sql" and "sync" exactly once; gate overlay cannot be generated'); sys.exit(3)
src = src.replace('\t"database/sql"\n', '\tsql "verif/h/vsql"\n').replace('\t"sync"\n', '\tsync "verif/h/vsync"\n')
os.makedirs(root + '/bin', exist_ok=True)
open(root + '/bin/sqlite_gated.go.txt', 'w').write(src)
json.dump({"Replace": {"/repo/store/sqlite.go": root + "/bin/sqlite_gated.go.txt"}}, open(root + '/bin/ov_gate.json', 'w'))
