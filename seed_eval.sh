#!/bin/bash
# seed_eval.sh <seed-name> <property> <worktree>  — confirm a seeded breaking change and run the check against it.
# Writes /verif/seeded/<seed-name>/{patch.diff,demo/*,meta.json,check.log}
set -u
name="$1"; prop="$2"; wt="$3"
export GOFLAGS=-mod=mod GOPROXY=off GOSUMDB=off GOTOOLCHAIN=local
out=/verif/seeded/$name; mkdir -p "$out/demo"
cd "$wt" || exit 2
git diff > "$out/patch.diff"
demos=$(git status --porcelain | awk '/^\?\?/ {print $2}' | grep '_test.go$')
for d in $demos; do mkdir -p "$out/demo/$(dirname $d)"; cp "$d" "$out/demo/$d"; done
[ -f SEED_REPORT.md ] && cp SEED_REPORT.md "$out/SEED_REPORT.md"
pkgs=$(for d in $demos; do echo "./$(dirname $d)/"; done | sort -u | tr '\n' ' ')
funcs=$(cat $demos | sed -n 's/^func \(Test[A-Za-z0-9_]*\)(.*/\1/p' | tr '\n' '|' | sed 's/|$//')
ns() { unshare -rn sh -c "ip link set lo up; $1"; }
# demo with the change
ns "go test -p 1 -vet=off -count=1 -run '^($funcs)\$' $pkgs" > "$out/demo_with_change.log" 2>&1; dw=$?
# demo without the change
git stash push -q -- $(git diff --name-only) ; ns "go test -p 1 -vet=off -count=1 -run '^($funcs)\$' $pkgs" > "$out/demo_without_change.log" 2>&1; dwo=$?; git stash pop -q
# existing suite with the change (demo files moved aside)
mkdir -p /tmp/seed_aside_$name; for d in $demos; do mv "$d" /tmp/seed_aside_$name/$(echo $d | tr / _); done
ns "go build ./... && go test -p 1 -vet=off -count=1 ./client/ ./store/ ./data/ ./modbus/ ./api/ ./respreader/ ./node/" > "$out/suite_with_change.log" 2>&1; sw=$?
if [ $sw -ne 0 ]; then ns "go test -p 1 -vet=off -count=1 ./client/ ./store/ ./data/ ./modbus/ ./api/ ./respreader/ ./node/" > "$out/suite_with_change.log" 2>&1; sw=$?; fi
for d in $demos; do mv /tmp/seed_aside_$name/$(echo $d | tr / _) "$d"; done; rmdir /tmp/seed_aside_$name
# the check against the change
(/verif/mut.sh "$out/patch.diff" $prop quick > "$out/check_quick.log" 2>&1; echo $? > "$out/check_quick.rc")
cq=$(cat "$out/check_quick.rc")
echo "seed=$name prop=$prop demo_with_change_rc=$dw (want !=0) demo_without_rc=$dwo (want 0) suite_with_change_rc=$sw (want 0) check_quick_rc=$cq (want 1)"
grep -h "VIOLATION" "$out/check_quick.log" | head -3 | cut -c1-220
