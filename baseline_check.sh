#!/bin/bash
# Runs the repository's own test suite (guard off: there are no source hooks) and
# compares with the 130 stable tests of /root/.vp/BASELINE.json.
cd /repo
export GOFLAGS=-mod=mod GOPROXY=off GOSUMDB=off
out=$(mktemp)
go test -p 1 -mod=mod -json -vet=off -count=1 -timeout 25m ./... > "$out" 2>/dev/null
python3 - "$out" <<'PY'
import json,sys
res={}
for l in open(sys.argv[1]):
    try: e=json.loads(l)
    except: continue
    if e.get('Test') and e.get('Action') in ('pass','fail','skip'):
        res[e['Package']+'::'+e['Test']]=e['Action']
base=json.load(open('/root/.vp/BASELINE.json'))
bad=[t for t in base['stable_pass'] if res.get(t)!='pass']
print("stable tests passing: %d/%d"%(len(base['stable_pass'])-len(bad),len(base['stable_pass'])))
for t in bad: print("  NOT PASSING:",t,res.get(t))
sys.exit(1 if bad else 0)
PY
rc=$?
rm -f "$out"
exit $rc
