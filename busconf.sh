#!/bin/bash
# Bus conformance: the same scripts against the in-process stand-in and against real nats.go + embedded nats-server.
cd "$(dirname "$0")"
export GOFLAGS=-mod=mod GOPROXY=off GOSUMDB=off GOTOOLCHAIN=local
mkdir -p bin
cp /repo/go.sum h/go.sum; cp /repo/go.sum realnats/go.sum
cp conf/scripts.go.txt h/conf/scripts.go && cp conf/scripts.go.txt realnats/conf/scripts.go
(cd h && go build -o ../bin/conf_shim ./conf) && (cd realnats && go build -o ../bin/conf_real ./conf) || { echo "HARNESS-ERROR: conformance build failed"; exit 3; }
timeout 120 bin/conf_shim > bin/conf_shim.json || { echo "HARNESS-ERROR: shim run failed"; exit 3; }
timeout 120 bin/conf_real > bin/conf_real.json || { echo "HARNESS-ERROR: real run failed"; exit 3; }
python3 - <<'PY'
import json,sys
a=json.load(open('bin/conf_shim.json')); b=json.load(open('bin/conf_real.json'))
traces=sum(len(v) for v in a.values()); events=sum(len(x) for v in a.values() for x in v.values())
diff=[k for k in sorted(set(a)|set(b)) if a.get(k)!=b.get(k)]
json.dump({"scripts":len(a),"traces_compared":traces,"events_compared":events,"differences":diff,"identical":not diff},open('conformance/busconf.json','w'),indent=1)
print("bus conformance: %d scripts, %d traces, %d events, differences: %s"%(len(a),traces,events,diff or "none"))
for k in diff: print(" shim:",json.dumps(a.get(k))[:400]); print(" real:",json.dumps(b.get(k))[:400])
sys.exit(1 if diff else 0)
PY
