#!/usr/bin/env python3-vt
# validate MANIFEST.json and all evidence files against the schemas
import json, sys, glob, jsonschema
ok = True
def v(path, schema):
    global ok
    try:
        jsonschema.validate(json.load(open(path)), json.load(open(schema)))
        print("ok  ", path)
    except Exception as e:
        ok = False
        print("FAIL", path, str(e)[:300])
v('/verif/MANIFEST.json', '/root/.vp/MANIFEST.schema.json')
for f in sorted(glob.glob('/verif/evidence/*.json')):
    v(f, '/root/.vp/EVIDENCE.schema.json')
sys.exit(0 if ok else 1)
