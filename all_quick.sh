#!/bin/bash
# runs every check's quick command on the current tree, sequentially; prints one summary line each
cd /verif
for i in $(seq -w 1 20); do
  c=C$i
  s=$(date +%s)
  out=$(timeout 1800 ./run.sh $c ${1:-quick} 2>&1); rc=$?
  e=$(date +%s)
  echo "$c rc=$rc $((e-s))s $(echo "$out" | grep -E "^$c (quick|thorough):" | cut -c1-160)"
  echo "$out" | grep -E "^VIOLATION|HARNESS-ERROR" | head -3 | cut -c1-200
done
